/* simdwrap.h — C models of the sonic simd.h wrapper idioms that the sliced kernels use.
 * TRUSTED (not taken from /repo): each macro mirrors the member function of
 * avx2/simd.h / sse/simd.h named in its comment, composed from the intrinsic models;
 * tools/validate_models.cpp compares them with the real C++ classes on every run.
 * Select the instantiation with -DVEC_LEN=32 (avx2) or -DVEC_LEN=16 (sse). */
#ifndef VERIF_SIMDWRAP_H
#define VERIF_SIMDWRAP_H
#include "intrin.h"

#ifndef VEC_LEN
#error "define VEC_LEN (16 or 32)"
#endif

#if VEC_LEN == 32
#define VEC_FULL_MASK 0xFFFFFFFF               /* avx2/quote.h */
typedef m256 VecUint8Type;                     /* using VecUint8Type = simd::simd256<uint8_t> */
typedef m256 VecBoolType;
typedef m256 VecType;
#define VEC_LOAD(p) MDL(_mm256_loadu_si256)((const m256 *)(p))                 /* simd256<uint8_t>(const uint8_t*) -> load */
#define VEC_STORE(v, p) MDL(_mm256_storeu_si256)((m256 *)(p), (v))             /* store */
#define VEC_SPLAT(c) MDL(_mm256_set1_epi8)((char)(c))                          /* splat */
#define VEC_EQ(v, c) MDL(_mm256_cmpeq_epi8)((v), VEC_SPLAT(c))                 /* operator== */
#define VEC_LE(v, c) MDL(_mm256_cmpeq_epi8)(MDL(_mm256_max_epu8)(VEC_SPLAT(c), (v)), VEC_SPLAT(c)) /* operator<=: other.max_val(*this) == other */
#define VEC_NOT(a) MDL(_mm256_cmpeq_epi8)((a), MDL(_mm256_set1_epi8)(0))      /* used only on masks produced below */
/* operator<: this->lt_bits(other).any_bits_set() == ~(other.saturating_sub(*this) == 0) */
static inline m256 mdl_vec_lt(m256 v, m256 other) {
  m256 d = MDL(_mm256_subs_epu8)(other, v);
  m256 z = MDL(_mm256_cmpeq_epi8)(d, MDL(_mm256_set1_epi8)(0));
  m256 r;
#define L(i) r.b[i] = (uint8_t)~z.b[i];
  REP32(L)
#undef L
  return r;
}
#define VEC_LT(v, c) mdl_vec_lt((v), VEC_SPLAT(c))
#define VEC_OR(a, b) MDL(_mm256_or_si256)((a), (b))                            /* operator| */
#define VEC_SPLAT_BOOL(x) MDL(_mm256_set1_epi8)((char)(uint8_t)(-(!!(x))))     /* simd256<bool>(bool) */
#define VEC_TO_BITMASK(v) ((uint64_t)(uint32_t)MDL(_mm256_movemask_epi8)(v))   /* simd256<bool>::to_bitmask */
#elif VEC_LEN == 16
#ifndef VEC_FULL_MASK
#define VEC_FULL_MASK 0xFFFF                   /* sse/quote.h */
#endif
typedef m128 VecUint8Type;
typedef m128 VecBoolType;
typedef m128 VecType;
#define VEC_LOAD(p) MDL(_mm_loadu_si128)((const m128 *)(p))
#define VEC_STORE(v, p) MDL(_mm_storeu_si128)((m128 *)(p), (v))
#define VEC_SPLAT(c) MDL(_mm_set1_epi8)((char)(c))
#define VEC_EQ(v, c) MDL(_mm_cmpeq_epi8)((v), VEC_SPLAT(c))
#define VEC_LE(v, c) MDL(_mm_cmpeq_epi8)(MDL(_mm_max_epu8)(VEC_SPLAT(c), (v)), VEC_SPLAT(c))
static inline m128 mdl_vec_lt(m128 v, m128 other) {
  m128 d = MDL(_mm_subs_epu8)(other, v);
  m128 z = MDL(_mm_cmpeq_epi8)(d, MDL(_mm_set1_epi8)(0));
  m128 r;
#define L(i) r.b[i] = (uint8_t)~z.b[i];
  REP16(L)
#undef L
  return r;
}
#define VEC_LT(v, c) mdl_vec_lt((v), VEC_SPLAT(c))
#define VEC_OR(a, b) MDL(_mm_or_si128)((a), (b))
#define VEC_SPLAT_BOOL(x) MDL(_mm_set1_epi8)((char)(uint8_t)(-(!!(x))))
#define VEC_TO_BITMASK(v) ((uint64_t)(uint32_t)MDL(_mm_movemask_epi8)(v))
#else
#error "VEC_LEN must be 16 or 32"
#endif

/* simd8x64<uint8_t>: two 256-bit chunks (avx2) or four 128-bit chunks (sse); observable
 * behaviour of the members used by skip.inc.h is identical, so one byte-array model. */
typedef struct { uint8_t b[64]; } simd8x64_u8;
static inline simd8x64_u8 simd8x64_load(const uint8_t *p) {           /* simd8x64(const T ptr[64]) */
  simd8x64_u8 r;
#define L(i) r.b[i] = p[i];
  REP64(L)
#undef L
  return r;
}
static inline uint64_t simd8x64_eq(simd8x64_u8 v, uint8_t m) {        /* eq(const T m) */
  uint64_t r = 0;
#define L(i) r |= ((uint64_t)(v.b[i] == m)) << (i);
  REP64(L)
#undef L
  return r;
}
/* simd256<uint8_t>::repeat_16(...) */
static inline m256 simd256_repeat_16(uint8_t v0, uint8_t v1, uint8_t v2, uint8_t v3, uint8_t v4, uint8_t v5,
                                     uint8_t v6, uint8_t v7, uint8_t v8, uint8_t v9, uint8_t v10, uint8_t v11,
                                     uint8_t v12, uint8_t v13, uint8_t v14, uint8_t v15) {
  m256 r;
  uint8_t t[16] = {v0, v1, v2, v3, v4, v5, v6, v7, v8, v9, v10, v11, v12, v13, v14, v15};
#define L(i) r.b[i] = t[(i) & 15];
  REP32(L)
#undef L
  return r;
}
/* v.chunks[k] for the avx2 layout */
static inline m256 simd8x64_chunk256(simd8x64_u8 v, int k) {
  m256 r;
#define L(i) r.b[i] = v.b[32 * k + (i)];
  REP32(L)
#undef L
  return r;
}
/* eq(const simd8x64<uint8_t>& other) with other built from two 256-bit chunks */
static inline uint64_t simd8x64_eqv(simd8x64_u8 v, m256 c0, m256 c1) {
  uint64_t r = 0;
#define L(i) r |= ((uint64_t)(v.b[i] == c0.b[i])) << (i); r |= ((uint64_t)(v.b[32 + (i)] == c1.b[i])) << (32 + (i));
  REP32(L)
#undef L
  return r;
}
#endif
