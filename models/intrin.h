/* intrin.h — byte-lane models of the Intel intrinsics used by the sliced sonic-cpp text.
 * TRUSTED (not taken from /repo): written from the Intel pseudo-code; compared against the
 * real instructions on this CPU by tools/validate_models.cpp on every run.
 * All models are loop-free (macro-unrolled) so that DFCC never sees a model loop.
 *
 * Under CBMC (VERIF_CBMC) the models take the real names; in the native validation build
 * they are prefixed mdl_ so that they can be compared with <immintrin.h>. */
#ifndef VERIF_INTRIN_H
#define VERIF_INTRIN_H
#include <stdint.h>
#include <stddef.h>

#ifdef VERIF_CBMC
#define MDL(n) n
#else
#define MDL(n) mdl_##n
#endif

typedef struct { uint8_t b[16]; } m128;
typedef struct { uint8_t b[32]; } m256;

#ifdef VERIF_CBMC
#define __m128i m128
#define __m256i m256
#endif

#define REP8(M) M(0) M(1) M(2) M(3) M(4) M(5) M(6) M(7)
#define REP16(M) REP8(M) M(8) M(9) M(10) M(11) M(12) M(13) M(14) M(15)
#define REP32(M) REP16(M) M(16) M(17) M(18) M(19) M(20) M(21) M(22) M(23) \
                 M(24) M(25) M(26) M(27) M(28) M(29) M(30) M(31)
#define REP64(M) REP32(M) M(32) M(33) M(34) M(35) M(36) M(37) M(38) M(39) \
                 M(40) M(41) M(42) M(43) M(44) M(45) M(46) M(47) M(48) M(49) M(50) M(51) \
                 M(52) M(53) M(54) M(55) M(56) M(57) M(58) M(59) M(60) M(61) M(62) M(63)

/* ---------- loads / stores: byte-wise, so every lane is a pointer obligation ---------- */
static inline m128 MDL(_mm_loadu_si128)(const m128 *p) {
  const uint8_t *q = (const uint8_t *)p; m128 r;
#define L(i) r.b[i] = q[i];
  REP16(L)
#undef L
  return r;
}
static inline void MDL(_mm_storeu_si128)(m128 *p, m128 v) {
  uint8_t *q = (uint8_t *)p;
#define L(i) q[i] = v.b[i];
  REP16(L)
#undef L
}
static inline m256 MDL(_mm256_loadu_si256)(const m256 *p) {
  const uint8_t *q = (const uint8_t *)p; m256 r;
#define L(i) r.b[i] = q[i];
  REP32(L)
#undef L
  return r;
}
static inline void MDL(_mm256_storeu_si256)(m256 *p, m256 v) {
  uint8_t *q = (uint8_t *)p;
#define L(i) q[i] = v.b[i];
  REP32(L)
#undef L
}

/* ---------- set ---------- */
static inline m128 MDL(_mm_set1_epi8)(char c) {
  m128 r;
#define L(i) r.b[i] = (uint8_t)c;
  REP16(L)
#undef L
  return r;
}
static inline m256 MDL(_mm256_set1_epi8)(char c) {
  m256 r;
#define L(i) r.b[i] = (uint8_t)c;
  REP32(L)
#undef L
  return r;
}
static inline m128 MDL(_mm_setr_epi8)(char e0, char e1, char e2, char e3, char e4, char e5,
                                      char e6, char e7, char e8, char e9, char e10, char e11,
                                      char e12, char e13, char e14, char e15) {
  m128 r;
  r.b[0] = (uint8_t)e0; r.b[1] = (uint8_t)e1; r.b[2] = (uint8_t)e2; r.b[3] = (uint8_t)e3;
  r.b[4] = (uint8_t)e4; r.b[5] = (uint8_t)e5; r.b[6] = (uint8_t)e6; r.b[7] = (uint8_t)e7;
  r.b[8] = (uint8_t)e8; r.b[9] = (uint8_t)e9; r.b[10] = (uint8_t)e10; r.b[11] = (uint8_t)e11;
  r.b[12] = (uint8_t)e12; r.b[13] = (uint8_t)e13; r.b[14] = (uint8_t)e14; r.b[15] = (uint8_t)e15;
  return r;
}
static inline m128 MDL(_mm_set_epi64x)(long long hi, long long lo) {
  m128 r;
#define L(i) r.b[i] = (uint8_t)(((uint64_t)lo) >> (8 * (i)));
  REP8(L)
#undef L
#define L(i) r.b[8 + i] = (uint8_t)(((uint64_t)hi) >> (8 * (i)));
  REP8(L)
#undef L
  return r;
}
static inline long long MDL(_mm_cvtsi128_si64)(m128 a) {
  uint64_t r = 0;
#define L(i) r |= ((uint64_t)a.b[i]) << (8 * (i));
  REP8(L)
#undef L
  return (long long)r;
}

/* ---------- compares ---------- */
static inline m128 MDL(_mm_cmpeq_epi8)(m128 a, m128 b) {
  m128 r;
#define L(i) r.b[i] = (a.b[i] == b.b[i]) ? 0xFF : 0;
  REP16(L)
#undef L
  return r;
}
static inline m128 MDL(_mm_cmpgt_epi8)(m128 a, m128 b) {
  m128 r;
#define L(i) r.b[i] = ((int8_t)a.b[i] > (int8_t)b.b[i]) ? 0xFF : 0;
  REP16(L)
#undef L
  return r;
}
static inline m128 MDL(_mm_cmplt_epi8)(m128 a, m128 b) {
  m128 r;
#define L(i) r.b[i] = ((int8_t)a.b[i] < (int8_t)b.b[i]) ? 0xFF : 0;
  REP16(L)
#undef L
  return r;
}
static inline m256 MDL(_mm256_cmpeq_epi8)(m256 a, m256 b) {
  m256 r;
#define L(i) r.b[i] = (a.b[i] == b.b[i]) ? 0xFF : 0;
  REP32(L)
#undef L
  return r;
}
static inline m256 MDL(_mm256_cmpgt_epi8)(m256 a, m256 b) {
  m256 r;
#define L(i) r.b[i] = ((int8_t)a.b[i] > (int8_t)b.b[i]) ? 0xFF : 0;
  REP32(L)
#undef L
  return r;
}

/* ---------- bitwise ---------- */
static inline m128 MDL(_mm_and_si128)(m128 a, m128 b) {
  m128 r;
#define L(i) r.b[i] = a.b[i] & b.b[i];
  REP16(L)
#undef L
  return r;
}
static inline m128 MDL(_mm_or_si128)(m128 a, m128 b) {
  m128 r;
#define L(i) r.b[i] = a.b[i] | b.b[i];
  REP16(L)
#undef L
  return r;
}
static inline m256 MDL(_mm256_and_si256)(m256 a, m256 b) {
  m256 r;
#define L(i) r.b[i] = a.b[i] & b.b[i];
  REP32(L)
#undef L
  return r;
}
static inline m256 MDL(_mm256_or_si256)(m256 a, m256 b) {
  m256 r;
#define L(i) r.b[i] = a.b[i] | b.b[i];
  REP32(L)
#undef L
  return r;
}

/* ---------- min/max/saturating (unsigned bytes) ---------- */
static inline m128 MDL(_mm_max_epu8)(m128 a, m128 b) {
  m128 r;
#define L(i) r.b[i] = a.b[i] > b.b[i] ? a.b[i] : b.b[i];
  REP16(L)
#undef L
  return r;
}
static inline m256 MDL(_mm256_max_epu8)(m256 a, m256 b) {
  m256 r;
#define L(i) r.b[i] = a.b[i] > b.b[i] ? a.b[i] : b.b[i];
  REP32(L)
#undef L
  return r;
}
static inline m128 MDL(_mm_subs_epu8)(m128 a, m128 b) {
  m128 r;
#define L(i) r.b[i] = a.b[i] > b.b[i] ? (uint8_t)(a.b[i] - b.b[i]) : 0;
  REP16(L)
#undef L
  return r;
}
static inline m256 MDL(_mm256_subs_epu8)(m256 a, m256 b) {
  m256 r;
#define L(i) r.b[i] = a.b[i] > b.b[i] ? (uint8_t)(a.b[i] - b.b[i]) : 0;
  REP32(L)
#undef L
  return r;
}

/* ---------- movemask ---------- */
static inline int MDL(_mm_movemask_epi8)(m128 a) {
  uint32_t r = 0;
#define L(i) r |= ((uint32_t)(a.b[i] >> 7)) << (i);
  REP16(L)
#undef L
  return (int)r;
}
static inline int MDL(_mm256_movemask_epi8)(m256 a) {
  uint32_t r = 0;
#define L(i) r |= ((uint32_t)(a.b[i] >> 7)) << (i);
  REP32(L)
#undef L
  return (int)r; /* implementation-defined conversion: two's complement, as GCC/Clang */
}

/* ---------- pshufb ---------- */
static inline m128 MDL(_mm_shuffle_epi8)(m128 a, m128 b) {
  m128 r;
#define L(i) r.b[i] = (b.b[i] & 0x80) ? 0 : a.b[b.b[i] & 0x0F];
  REP16(L)
#undef L
  return r;
}
static inline m256 MDL(_mm256_shuffle_epi8)(m256 a, m256 b) {
  m256 r;
#define L(i) r.b[i] = (b.b[i] & 0x80) ? 0 : a.b[((i) & 16) + (b.b[i] & 0x0F)];
  REP32(L)
#undef L
  return r;
}

/* ---------- carry-less multiply (imm8 == 0: low qword x low qword) ---------- */
typedef struct { uint64_t lo, hi; } mdl_u128;
static inline mdl_u128 mdl_clmul64(uint64_t a, uint64_t b) {
  mdl_u128 r; r.lo = 0; r.hi = 0;
#define L(i) if ((b >> (i)) & 1) { r.lo ^= a << (i); if ((i) != 0) r.hi ^= a >> ((64 - (i)) & 63); }
  REP64(L)
#undef L
  return r;
}
static inline m128 MDL(_mm_clmulepi64_si128)(m128 a, m128 b, int imm8) {
  uint64_t x = 0, y = 0;
#define L(i) x |= ((uint64_t)a.b[((imm8 & 1) ? 8 : 0) + i]) << (8 * (i)); \
             y |= ((uint64_t)b.b[((imm8 & 16) ? 8 : 0) + i]) << (8 * (i));
  REP8(L)
#undef L
  mdl_u128 p = mdl_clmul64(x, y);
  m128 r;
#define L(i) r.b[i] = (uint8_t)(p.lo >> (8 * (i))); r.b[8 + i] = (uint8_t)(p.hi >> (8 * (i)));
  REP8(L)
#undef L
  return r;
}

/* ---------- BMI ---------- */
static inline unsigned MDL(_bzhi_u32)(unsigned a, unsigned idx) {
  unsigned n = idx & 0xFF;
  return n >= 32 ? a : (a & ((1u << n) - 1u));
}


/* ---------- used by the itoa kernels (C08) ---------- */
static inline m128 MDL(_mm_setzero_si128)(void) {
  m128 r;
#define L(i) r.b[i] = 0;
  REP16(L)
#undef L
  return r;
}
static inline m128 MDL(_mm_add_epi8)(m128 a, m128 b) {
  m128 r;
#define L(i) r.b[i] = (uint8_t)(a.b[i] + b.b[i]);
  REP16(L)
#undef L
  return r;
}
/* packus_epi16: eight signed 16-bit lanes of a then of b, each saturated to 0..255 */
static inline uint8_t mdl_sat_u8_from_i16(uint8_t lo, uint8_t hi) {
  int16_t v = (int16_t)(uint16_t)(lo | ((uint16_t)hi << 8));
  return v < 0 ? 0 : v > 255 ? 255 : (uint8_t)v;
}
static inline m128 MDL(_mm_packus_epi16)(m128 a, m128 b) {
  m128 r;
#define L(i) r.b[i] = mdl_sat_u8_from_i16(a.b[2 * (i)], a.b[2 * (i) + 1]); r.b[8 + (i)] = mdl_sat_u8_from_i16(b.b[2 * (i)], b.b[2 * (i) + 1]);
  REP8(L)
#undef L
  return r;
}
#endif
