/* prelude.h — C environment for the sliced sonic-cpp text (CBMC and native TV builds).
 * Nothing here is taken from /repo; everything here is listed as trusted in evidence. */
#ifndef VERIF_PRELUDE_H
#define VERIF_PRELUDE_H
#include <stdint.h>
#include <stddef.h>
#include <stdbool.h>
#include <string.h>
#include <stdlib.h>

#define sonic_force_inline static inline
#define sonic_static_inline static inline
#define sonic_static_noinline static
#define sonic_likely(x) (x)
#define sonic_unlikely(x) (x)
#define constexpr const

#ifdef VERIF_CBMC
#define sonic_assert(e) __CPROVER_assert((e), "sonic_assert: " #e)
#define VASSERT(e, msg) __CPROVER_assert((e), msg)
#define VASSUME(e) __CPROVER_assume(e)
/* canary: must FAIL in every harness (proves the post-state of the call is reachable,
 * i.e. the preconditions are satisfiable and the function returns) */
#ifdef NO_CANARY
#define CANARY() ((void)0)
#else
#define CANARY() __CPROVER_assert(0, "CANARY reachable post-state (expected to fail)")
#endif
#else
#include <assert.h>
#define sonic_assert(e) assert(e)
#endif

#define SONICJSON_PADDING 64
/* production build flags of both x86 targets (-march=haswell / westmere + -mpclmul) */
#define __PCLMUL__ 1

/* SonicError values (checked against /repo/include/sonic/error.h by slice.py on every run) */
#include "gen/error_enum.inc"

#endif
