#!/bin/sh
# seed_run.sh <seed-id> <property> [tier]: apply /verif/seeded/<seed-id>/patch.diff to /repo, run the property's check, undo.
S=/verif/seeded/$1; P=$2; T=${3:-quick}
[ -f "$S/patch.diff" ] || { echo "no such seed $1"; exit 2; }
cd /repo && git diff --quiet || { echo "/repo has uncommitted changes; refusing"; exit 2; }
git -C /repo apply "$S/patch.diff" || { echo "patch does not apply"; exit 2; }
mkdir -p /var/tmp/seedruns/$1
( cd /verif && VERIF_NO_EVIDENCE=1 VERIF_REPLAY_DIR=/var/tmp/seedruns/$1 ./check $P $T ) > /var/tmp/seedruns/$1/$P.log 2>&1
rc=$?
git -C /repo checkout -- .
echo "seed $1 check $P: exit=$rc"; grep -a "VIOLATION\|^TOOL" /var/tmp/seedruns/$1/$P.log | cut -c1-300 | head -5
