#!/usr/bin/env python3
"""Regenerate MANIFEST.json from specs/jobs.py + the static tables below (keeps it valid at all times)."""
import json, os, sys
HERE = os.path.dirname(os.path.abspath(__file__)); VERIF = os.path.dirname(HERE)
sys.path.insert(0, os.path.join(VERIF, "specs"))
import jobs as J
import manifest_text as T

checks = []
for pid in sorted(J.PROPS.keys()):
    t = T.CHECKS[pid]
    checks.append({
        "property_id": pid,
        "quick_cmd": "./check %s quick" % pid,
        "thorough_cmd": "./check %s thorough" % pid,
        "evidence_file": "/verif/evidence/%s.json" % pid,
        "replay_cmd_template": "./check %s --replay {path}" % pid,
        "engine": "cbmc-contracts",
        "level_claimed": {"category": J.PROPS[pid].get("level", "proof"), "text": t["text"], "design_ref": t["design_ref"]},
        "level_note": t["note"],
        "technique": t["technique"],
    })
na = [{"property_id": k, "reason": v} for k, v in sorted(T.NOT_APPLICABLE.items()) if k not in J.PROPS]
m = {
    "version": 1,
    "setup_cmd": "sh tools/setup.sh",
    "hooks": {"guard": "BYTEDANCE_SONIC_CPP_VERIF", "enable": "none needed: the checks slice /repo's headers as text; no hook code exists in /repo",
              "baseline_off_cmd": "sh /verif/tools/baseline.sh", "source_commits": [], "add_only": True},
    "engines": [{"name": "cbmc-contracts", "path": "/verif/tools/vrun.py", "serves_properties": sorted(J.PROPS.keys()),
                 "kind_free_text": "CBMC 6.11 code contracts (goto-instrument --dfcc --enforce-contract/--replace-call-with-contract/--apply-loop-contracts) on C text sliced and lowered mechanically from /repo's headers on every run; bounded stand-ins labelled bounded"}],
    "checks": checks,
    "not_applicable": na,
    "notes": T.NOTES,
}
json.dump(m, open(os.path.join(VERIF, "MANIFEST.json"), "w"), indent=1)
print("MANIFEST.json: %d checks, %d not applicable" % (len(checks), len(na)))
