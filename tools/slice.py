#!/usr/bin/env python3
"""slice.py — regenerate the verified C text from /repo's current working tree.

For every unit in specs/units.py:
  1. locate the anchor (must match exactly once) and take the text up to the matching
     closing brace VERBATIM;
  2. lower C++ to C with an enumerated list of textual rules (each rule that a unit marks
     as must-fire has to fire, otherwise: extraction break);
  3. insert loop contracts (pure additions) after the k-th loop header;
  4. write gen/<unit>.inc preceded by a #line directive pointing at the real file/line,
     and gen/manifest.json describing exactly what was taken and what was changed.

Exit status / exceptions: SliceError == extraction break (exit 2 in the caller). Never a violation.
"""
import hashlib
import json
import os
import re
import sys

REPO = os.environ.get("VERIF_REPO", "/repo")


class SliceError(Exception):
    pass


# ----------------------------------------------------------------------------- text utils
def _skip_ws_comments(s, i):
    n = len(s)
    while i < n:
        if s[i].isspace():
            i += 1
        elif s.startswith("//", i):
            j = s.find("\n", i)
            i = n if j < 0 else j + 1
        elif s.startswith("/*", i):
            j = s.find("*/", i)
            i = n if j < 0 else j + 2
        else:
            break
    return i


def _scan(s, i, open_ch, close_ch):
    """s[i] == open_ch; return index of the matching close_ch, skipping comments and literals."""
    assert s[i] == open_ch, (s[i:i + 20], open_ch)
    depth = 0
    n = len(s)
    while i < n:
        c = s[i]
        if s.startswith("//", i):
            j = s.find("\n", i)
            i = n if j < 0 else j
            continue
        if s.startswith("/*", i):
            j = s.find("*/", i)
            i = n if j < 0 else j + 2
            continue
        if c == '"' or c == "'":
            q = c
            i += 1
            while i < n and s[i] != q:
                if s[i] == "\\":
                    i += 1
                i += 1
            i += 1
            continue
        if c == "#" and s[:i].rstrip(" \t").endswith("\n"):
            # preprocessor conditional inside the sliced text: braces are counted in the first branch only
            # (both branches of an #ifdef may open the same block, e.g. Quote's SONIC_USE_SANITIZE split)
            md = re.match(r"#\s*(else|elif)\b", s[i:])
            if md:
                lvl = 0
                j = i
                while True:
                    j = s.find("\n", j)
                    if j < 0:
                        raise SliceError("unterminated #else")
                    j += 1
                    ml = re.match(r"[ \t]*#\s*(if|ifdef|ifndef|endif)\b", s[j:])
                    if ml:
                        if ml.group(1) == "endif":
                            if lvl == 0:
                                break
                            lvl -= 1
                        else:
                            lvl += 1
                i = j
                continue
        if c == open_ch:
            depth += 1
        elif c == close_ch:
            depth -= 1
            if depth == 0:
                return i
        i += 1
    raise SliceError("unbalanced %s%s" % (open_ch, close_ch))


def _mask_noncode(s):
    """Return a copy of s with comments and string/char literal contents replaced by spaces
    (same length), so that keyword searches only see code."""
    out = list(s)
    i, n = 0, len(s)
    while i < n:
        if s.startswith("//", i):
            j = s.find("\n", i)
            j = n if j < 0 else j
            for k in range(i, j):
                out[k] = " "
            i = j
        elif s.startswith("/*", i):
            j = s.find("*/", i)
            j = n if j < 0 else j + 2
            for k in range(i, j):
                if out[k] != "\n":
                    out[k] = " "
            i = j
        elif s[i] in "\"'":
            q = s[i]
            j = i + 1
            while j < n and s[j] != q:
                if s[j] == "\\":
                    j += 1
                j += 1
            for k in range(i + 1, min(j, n)):
                out[k] = " "
            i = j + 1
        else:
            i += 1
    return "".join(out)


def find_loops(body):
    """Return insertion points for loop contracts: list of (kind, insert_index) in textual order.
    while/for: index just after the header's closing parenthesis. do: index just after 'do'.
    The 'while (...)' that terminates a do-block is not a loop of its own."""
    m = _mask_noncode(body)
    loops = []
    do_tails = set()
    for mo in re.finditer(r"\b(while|for|do)\b", m):
        kw = mo.group(1)
        if kw == "do":
            j = _skip_ws_comments(m, mo.end())
            if j < len(m) and m[j] == "{":
                close = _scan(m, j, "{", "}")
                k = _skip_ws_comments(m, close + 1)
                if m.startswith("while", k):
                    do_tails.add(k)
                else:
                    raise SliceError("do without while")
            else:
                raise SliceError("do body not braced")
            loops.append(("do", mo.end(), mo.start(), j))
        else:
            if kw == "while" and mo.start() in do_tails:
                continue
            j = _skip_ws_comments(m, mo.end())
            if j >= len(m) or m[j] != "(":
                raise SliceError("loop header without parenthesis")
            close = _scan(m, j, "(", ")")
            b = _skip_ws_comments(m, close + 1)
            loops.append((kw, close + 1, mo.start(), b if b < len(m) and m[b] == "{" else -1))
    return loops


# ----------------------------------------------------------------------------- default rules
DEFAULT_RULES = [
    ("cast", r"\b(?:static|reinterpret|const)_cast<([^<>]+)>\s*\(", r"(\1)("),
    ("ns-std", r"\bstd::", ""),
    ("ns-common", r"\bcommon::", ""),
    ("ns-simd", r"\bsimd::", ""),
    ("ns-sonic", r"\bsonic_json::(?:internal::)?", ""),
    ("ns-internal", r"\binternal::", ""),
    ("fcast", r"(?<![\w)\]])\b(u?int(?:8|16|32|64)_t|size_t)\(", r"(\1)("),
    ("local-static-constexpr", r"\bstatic constexpr\b", "const"),
    ("local-const-static", r"\bconst static\b", "const"),
    ("local-static-const", r"\bstatic const\b(?= (?:u?int\d+_t|size_t|int|char) \w+ =)", "const"),
    ("auto-cast", r"\bauto (\w+) = \(([^()]+)\)\(", r"\2 \1 = (\2)("),
    ("nullptr", r"\bnullptr\b", "NULL"),
    # every label on a line of its own gets an empty statement: (a) C (unlike C++) does not allow a
    # declaration right after a label; (b) a backward goto to a label in front of a loop header and the
    # loop's own back-edge then have different targets (CBMC merges back-edges that share a target and
    # silently drops the loop contract). Pure addition, no semantics.
    ("label-empty-stmt", r"(?m)^(\s*(?!default\b)\w+):[ \t]*$", r"\1: ;"),
    ("noexcept", r"\bnoexcept\b", ""),
]


def apply_rules(text, rules, fired):
    for name, pat, rep in rules:
        text, n = re.subn(pat, rep, text)
        fired[name] = fired.get(name, 0) + n
    return text


# ----------------------------------------------------------------------------- extraction
def read(path):
    with open(os.path.join(REPO, path)) as f:
        return f.read()


def locate(src, anchor, unit, nth=None, after=None):
    start = 0
    if after is not None:
        ha = [m for m in re.finditer(after, src)]
        if len(ha) != 1:
            raise SliceError("%s: 'after' anchor %r matched %d times (need exactly 1)" % (unit, after, len(ha)))
        start = ha[0].end()
    hits = [m for m in re.compile(anchor).finditer(src, start)]
    if nth is not None:
        if len(hits) <= nth:
            raise SliceError("%s: anchor %r matched %d times, need index %d" % (unit, anchor, len(hits), nth))
        return hits[nth]
    if len(hits) != 1:
        raise SliceError("%s: anchor %r matched %d times (need exactly 1)" % (unit, anchor, len(hits)))
    return hits[0]


def lower_params(params, unit):
    """params: text between the outer parentheses. Returns (c_params, refnames)."""
    parts, depth, cur = [], 0, ""
    for ch in params:
        if ch in "([<":
            depth += 1
        elif ch in ")]>":
            depth -= 1
        if ch == "," and depth == 0:
            parts.append(cur)
            cur = ""
        else:
            cur += ch
    if cur.strip():
        parts.append(cur)
    out, refs = [], []
    for p in parts:
        p = " ".join(p.split())
        m = re.match(r"^(.*?)\(&(\w+)\)\[\w+\]$", p)  # const char (&tokens)[N]
        if m:
            out.append("%s*%s" % (m.group(1), m.group(2)))
            continue
        m = re.match(r"^(.*?)\s*&&?\s*(\w+)$", p)
        if m:
            ty, name = m.group(1), m.group(2)
            out.append("%s *%s__r" % (ty, name))
            refs.append(name)
            continue
        out.append(p)
    return ", ".join(out), refs


def _split_top(sx):
    parts, depth, cur = [], 0, ""
    for ch in sx:
        if ch in "([":
            depth += 1
        elif ch in ")]":
            depth -= 1
        if ch == "," and depth == 0:
            parts.append(cur.strip()); cur = ""
        else:
            cur += ch
    if cur.strip():
        parts.append(cur.strip())
    return parts


def _clauses(contract, kw):
    """yield the argument text of every __CPROVER_<kw>( ... ) clause of a contract"""
    m = _mask_noncode(contract)
    for mo in re.finditer(r"__CPROVER_%s\s*\(" % kw, m):
        op = mo.end() - 1
        cp = _scan(m, op, "(", ")")
        yield contract[op + 1:cp]


def make_stub(sig, rtype, contract, unit):
    """contract text -> C function with the same signature: assert requires; snapshot old(); havoc assigns; assume ensures."""
    olds = []

    def old_repl(expr_text):
        out, i = "", 0
        while True:
            j = expr_text.find("__CPROVER_old(", i)
            if j < 0:
                return out + expr_text[i:]
            op = j + len("__CPROVER_old")
            cp = _scan(expr_text, op, "(", ")")
            inner = expr_text[op + 1:cp]
            if inner not in olds:
                olds.append(inner)
            out += expr_text[i:j] + "__old%d" % olds.index(inner)
            i = cp + 1
    reqs = [r.replace("__CPROVER_is_fresh(", "__CPROVER_r_ok(") for r in _clauses(contract, "requires")]
    enss = [old_repl(e).replace("__CPROVER_return_value", "__ret") for e in _clauses(contract, "ensures")]
    asg = []
    for a in _clauses(contract, "assigns"):
        asg += _split_top(a)
    if any("__CPROVER_is_fresh" in e for e in enss):
        raise SliceError("%s: stub generation does not support is_fresh in ensures" % unit)
    lines = [sig, "{"]
    for k, r in enumerate(reqs):
        lines.append('  __CPROVER_assert(%s, "precondition %d of %s (contract clause, checked at the call site)");' % (" ".join(r.split()), k + 1, unit))
    for k, o in enumerate(olds):
        lines.append("  __typeof__(%s) __old%d = %s;" % (o, k, o))
    for a in asg:
        mo = re.match(r"__CPROVER_object_(whole|upto|from)\((.*)\)$", a, re.S)
        if mo and mo.group(1) == "whole":
            lines.append("  __CPROVER_havoc_object((void *)(%s));" % mo.group(2))
        elif mo and mo.group(1) == "upto":
            # a slice of symbolic length is havocked as the whole object: a sound over-approximation of the frame (CBMC's
            # havoc_slice with a symbolic size exhausted the solver's memory, probed)
            ptr, n = _split_top(mo.group(2))
            lines.append("  __CPROVER_havoc_object((void *)(%s));" % ptr)
        elif mo:
            lines.append("  __CPROVER_havoc_object((void *)(%s));" % mo.group(2))
        elif a:
            lines.append("  __CPROVER_havoc_slice((void *)&(%s), sizeof(%s));" % (a, a))
    if rtype and rtype != "void":
        lines.append("  %s __ret; __CPROVER_havoc_slice((void *)&__ret, sizeof(__ret));" % rtype)
    for e in enss:
        lines.append("  __CPROVER_assume(%s);" % " ".join(e.split()))
    if rtype and rtype != "void":
        lines.append("  return __ret;")
    lines.append("}")
    return "\n".join(lines)


def slice_unit(name, u, outdir, manifest):
    path = u["file"]
    src = read(path)
    mo = locate(src, u["anchor"], name, u.get("nth"), u.get("after"))
    start = mo.start()
    line = src.count("\n", 0, start) + 1
    kind = u.get("kind", "func")
    fired = {}
    rules = ([] if u.get("no_default_rules") else DEFAULT_RULES) + list(u.get("rules", [])) + list(u.get("rules_post", []))
    pre, post = "", ""

    if kind in ("table", "struct", "enum"):  # noqa
        ob = src.index("{", mo.end() - 1 if src[mo.end() - 1] == "{" else mo.end())
        cb = _scan(src, ob, "{", "}")
        semi = src.index(";", cb)
        raw = src[start:semi + 1]
        text = apply_rules(raw, rules, fired)
        end = semi + 1
    elif kind == "span":
        me = re.compile(u["end"]).search(src, mo.end())
        if not me:
            raise SliceError("%s: span end %r not found" % (name, u["end"]))
        end = me.end()
        raw = src[start:end]
        text = apply_rules(raw, rules, fired)
    elif kind == "block":
        # a fragment of a function body: from the anchor (which must end at or before the opening brace) to the matching brace
        ob = src.index("{", mo.end() - 1)
        cb = _scan(src, ob, "{", "}")
        end = cb + 1
        raw = src[start:end]
        text = apply_rules(raw, rules, fired)
    elif kind == "macro":
        end = start
        while True:
            nl = src.index("\n", end)
            if src[nl - 1] != "\\":
                end = nl + 1
                break
            end = nl + 1
        raw = src[start:end]
        text = apply_rules(raw, rules, fired)
    elif kind == "func":
        op = src.index("(", mo.start()) if "(" in mo.group(0) else src.index("(", mo.end() - 1)
        for _ in range(u.get("paren_skip", 0)):      # e.g. `operator()(args)`: the parameter list is the second parenthesis
            op = src.index("(", _scan(src, op, "(", ")") + 1)
        cp = _scan(src, op, "(", ")")
        ob = _skip_ws_comments(src, cp + 1)
        # skip trailing qualifiers (const / noexcept) of member functions
        mq = re.match(r"(?:const|noexcept|\s)*", src[ob:])
        ob += mq.end()
        if src[ob] != "{":
            raise SliceError("%s: no body after signature (found %r)" % (name, src[ob:ob + 20]))
        cb = _scan(src, ob, "{", "}")
        end = cb + 1
        raw = src[start:end]
        head = src[start:op]
        params = src[op + 1:cp]
        body = src[ob:cb + 1]
        cparams, refs = lower_params(params, name)
        cname = u.get("cname", name.split(".")[-1])
        # return type = head minus the function identifier
        mh = re.match(r"^(.*?)(\w+)\s*$", head, re.S)
        if not mh:
            if not (u.get("rtype") and u.get("cname")):
                raise SliceError("%s: cannot parse head %r" % (name, head))
            mh = re.match(r"^(.*?)()$", head, re.S)
        rtype = " ".join(mh.group(1).split())
        rtype = re.sub(r"\b(?:static|inline|sonic_force_inline|sonic_static_inline|sonic_static_noinline|constexpr)\b", "", rtype)
        rtype = " ".join(rtype.split())
        rtype = u.get("rtype", rtype)
        if u.get("self"):
            cparams = ("%s *self" % u["self"]) + (", " + cparams if cparams.strip() else "")
        if not cparams.strip():
            cparams = "void"
        # loop contracts
        loops = find_loops(body)
        want = u.get("nloops", 0)
        if len(loops) != want:
            raise SliceError("%s: found %d loops, spec expects %d" % (name, len(loops), want))
        lc = u.get("loops", {})
        rb = u.get("rebase", {})
        for k in sorted(set(lc.keys()) | set(rb.keys()), reverse=True):
            if k >= len(loops):
                raise SliceError("%s: loop contract for loop %d but only %d loops" % (name, k, len(loops)))
            kindk, idx, kwstart, bopen = loops[k]
            if k in rb:
                # Pointer re-basing (pure ghost addition): goto-instrument havocs every loop-assigned pointer variable to a
                # nondeterministic pointer, which CBMC then dereferences against every object in the program (blow-up, probed).
                # At the loop head we assert that the pointer still points into the object it pointed to at loop entry (an
                # obligation, provable from the invariant) and re-express it as entry pointer + offset: an identity.
                if bopen < 0:
                    raise SliceError("%s: loop %d body is not braced (needed for re-basing)" % (name, k))
                ins = " ".join('__CPROVER_assert(__CPROVER_same_object(%s, %s__e%d), "loop head: %s still points into the object it pointed to at loop entry"); %s = %s__e%d + (%s - %s__e%d);'
                               % (v, v, k, v, v, v, k, v, v, k) for v, t in rb[k])
                body = body[:bopen + 1] + " " + ins + body[bopen + 1:]
            if k in lc:
                ltext, cont = (lc[k], False) if isinstance(lc[k], str) else lc[k]
                # one line, so that #line numbering of the sliced text is not shifted
                clause = " " + " ".join(x.strip() for x in ltext.strip().splitlines()) + " "
                body = body[:idx] + clause + body[idx:]
            if k in rb:
                prev = _mask_noncode(body[:kwstart]).rstrip()
                if not prev or prev[-1] not in ";{}":
                    raise SliceError("%s: loop %d is not at statement level (needed for re-basing)" % (name, k))
                decl = " ".join("%s %s__e%d = %s;" % (t, v, k, v) for v, t in rb[k]) + " "
                body = body[:kwstart] + decl + body[kwstart:]
        body = apply_rules(body, rules, fired)
        sig = apply_rules("%s %s(%s)" % (rtype, cname, cparams), DEFAULT_RULES + list(u.get("sig_rules", [])), {})
        defs, undefs = [], []
        for k, v in u.get("tparams", {}).items():
            defs.append("#define %s %s" % (k, v))
            undefs.append("#undef %s" % k)
        for r in refs:
            defs.append("#define %s (*%s__r)" % (r, r))
            undefs.append("#undef %s" % r)
        if u.get("fields_mode") == "rewrite":
            # member names are rewritten to self->name in the body text (needed when the body also names the same members
            # of another object, e.g. rhs.shared_, which a field macro would clobber)
            for f in u.get("fields", []):
                body, n = re.subn(r"(?<![\w.>])%s\b" % re.escape(f), "self->" + f, body)
                fired["field:" + f] = n
        else:
            for f in u.get("fields", []):
                defs.append("#define %s (self->%s)" % (f, f))
                undefs.append("#undef %s" % f)
        for a, t in u.get("autos", {}).items():
            body, n = re.subn(r"\bauto(\s*&?\s*)%s\b" % re.escape(a), lambda m_: "%s %s" % (t, a), body)
            fired["auto:" + a] = n
            if n == 0:
                raise SliceError("%s: auto table entry %s did not fire" % (name, a))
        text = ""
        tdefs = [d for d in defs if any(d.startswith("#define %s " % k) for k in u.get("tparams", {}))]
        defs = [d for d in defs if d not in tdefs]
        text += "\n".join(tdefs) + ("\n" if tdefs else "")
        # contract-bearing forward declaration (written against the un-macro'd names)
        if u.get("contract"):
            text += "%s\n%s\n;\n" % (sig, u["contract"].strip())
        # -DSTUB_<cname>: the function becomes its own contract in executable form (precondition asserted, frame havocked,
        # postcondition assumed) — generated mechanically from the SAME contract text that is enforced on the real body in its
        # own job; used by bounded driver jobs that run plain CBMC instead of goto-instrument's call replacement.
        # (emitted before the member/reference macros, like the contract itself)
        if u.get("contract"):
            text += "#ifdef STUB_%s\n%s\n#endif\n" % (cname, make_stub(sig, rtype, u["contract"], name))
        text += "\n".join(defs) + ("\n" if defs else "")
        # named check classes switched off inside this one function (an *observation*, see DESIGN
        # section 3); a job compiled with -DOBSERVE_ALL keeps them on and reports what they flag
        cd = u.get("check_disable", [])
        if cd:
            text += "#ifndef OBSERVE_ALL\n#pragma CPROVER check push\n" + "".join('#pragma CPROVER check disable "%s"\n' % c for c in cd) + "#endif\n"
        if u.get("contract"):
            text += "#ifndef STUB_%s\n" % cname
        # -DCONTRACT_ONLY_<cname>: keep only the contract-bearing declaration (for jobs that replace every call of
        # this function by its contract and must not link its body, e.g. because of CBMC limitations)
        text += "#ifndef CONTRACT_ONLY_%s\n" % cname
        text += "#line %d \"%s\"\n" % (line, os.path.join(REPO, path))
        text += "%s\n%s\n" % (sig, body)
        text += "#endif\n"
        if u.get("contract"):
            text += "#endif\n"
        if cd:
            text += "#ifndef OBSERVE_ALL\n#pragma CPROVER check pop\n#endif\n"
        text += "\n".join(undefs) + ("\n" if undefs else "")
        if u.get("callmacro"):
            text += u["callmacro"].strip() + "\n"
    else:
        raise SliceError("%s: unknown kind %s" % (name, kind))

    if kind != "func":
        text = "#line %d \"%s\"\n%s\n" % (line, os.path.join(REPO, path), text)
    for must in u.get("must_fire", []):
        if fired.get(must, 0) == 0:
            raise SliceError("%s: must-fire rule %r did not fire" % (name, must))
    if re.search(r"\bauto\b", _mask_noncode(text)):
        raise SliceError("%s: 'auto' left after lowering" % name)
    fn = os.path.join(outdir, name + ".inc")
    with open(fn, "w") as f:
        f.write("/* GENERATED by tools/slice.py from %s:%d — do not edit */\n" % (path, line))
        f.write(text)
    end_line = src.count("\n", 0, end) + 1
    manifest[name] = {
        "file": path, "lines": [line, end_line],
        "sha256_of_sliced_text": hashlib.sha256(raw.encode()).hexdigest()[:16],
        "kind": kind,
        "rules_fired": {k: v for k, v in fired.items() if v},
        "loop_contracts": sorted(u.get("loops", {}).keys()),
        "checks_disabled_in_function": u.get("check_disable", []),
    }
    return fn


def generate(units, names, outdir):
    os.makedirs(outdir, exist_ok=True)
    manifest = {}
    for n in names:
        if n not in units:
            raise SliceError("unknown unit " + n)
        slice_unit(n, units[n], outdir, manifest)
    with open(os.path.join(outdir, "manifest.json"), "w") as f:
        json.dump(manifest, f, indent=1)
    return manifest


if __name__ == "__main__":
    sys.path.insert(0, os.path.join(os.path.dirname(os.path.abspath(__file__)), "..", "specs"))
    import units as U
    out = sys.argv[1]
    names = sys.argv[2:] or list(U.UNITS.keys())
    try:
        m = generate(U.UNITS, names, out)
    except SliceError as e:
        print("EXTRACTION BREAK:", e)
        sys.exit(2)
    print(json.dumps(m, indent=1))
