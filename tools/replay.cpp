// replay.cpp — re-run a verifier counterexample against the REAL sonic-cpp headers.
// usage: replay <driver> <flat-input-file>;  prints REPRODUCED / NOT-REPRODUCED; exit 0 either way.
#include <cstdint>
#include <cstdio>
#include <cstdlib>
#include <cstring>
#include <map>
#include <string>
#include <vector>
#include <fstream>
#include <sstream>
#include <sys/mman.h>

// built with -fno-access-control: the pool-allocator replays materialise an arbitrary pool state exactly as the CBMC harness does
#include "sonic/sonic.h"
extern "C++" {
#include "rfc8259.h"
}

struct Inputs {
  std::map<std::string, std::vector<uint8_t>> bytes;
  std::map<std::string, long long> ints;
  std::vector<uint8_t> B(const std::string &k, size_t n) const {
    std::vector<uint8_t> v(n, 0);
    auto it = bytes.find(k);
    if (it != bytes.end()) for (size_t i = 0; i < n && i < it->second.size(); i++) v[i] = it->second[i];
    return v;
  }
  long long I(const std::string &k, long long d = 0) const {
    auto it = ints.find(k);
    return it == ints.end() ? d : it->second;
  }
};

static Inputs load(const char *path) {
  Inputs in;
  std::ifstream f(path);
  std::string line;
  while (std::getline(f, line)) {
    std::istringstream ss(line);
    std::string k, t, v;
    ss >> k >> t >> v;
    if (t == "bytes") {
      std::vector<uint8_t> b;
      if (v != "-") for (size_t i = 0; i + 1 < v.size(); i += 2) b.push_back((uint8_t)strtoul(v.substr(i, 2).c_str(), nullptr, 16));
      in.bytes[k] = b;
    } else if (t == "int") {
      in.ints[k] = strtoll(v.c_str(), nullptr, 10);
      if (v.size() && v[0] != '-') in.ints[k] = (long long)strtoull(v.c_str(), nullptr, 10);
    }
  }
  return in;
}

static void hexdump(const char *tag, const uint8_t *p, size_t n) {
  printf("%s", tag);
  for (size_t i = 0; i < n; i++) printf(" %02x", p[i]);
  printf("\n");
}

static int verdict(bool reproduced, const char *what) {
  printf("%s %s\n", reproduced ? "REPRODUCED" : "NOT-REPRODUCED", what);
  return 0;
}

using namespace sonic_json;
using namespace sonic_json::internal;

static int d_hex(const Inputs &in) {
  auto s = in.B("in_src", 12);
  uint32_t r = common::hex_to_u32_nocheck(s.data());
  int32_t want = spec_hex4(s.data());
  hexdump("src:", s.data(), 4);
  printf("real=%08x spec=%d\n", r, want);
  bool bad = (want >= 0 && r != (uint32_t)want) || (want < 0 && (r >> 16) == 0);
  return verdict(bad, "hex_to_u32_nocheck disagrees with the four-hex-digit spec");
}

static int d_utf8(const Inputs &in) {
  uint32_t cp = (uint32_t)in.I("in_cp");
  uint8_t c[8] = {0}, w[4] = {0};
  size_t n = common::codepoint_to_utf8(cp, c);
  bool bad;
  if (cp > 0x10FFFF) bad = n != 0;
  else { unsigned wn = spec_utf8(cp, w); bad = n != wn || memcmp(c, w, wn) != 0; }
  printf("cp=%x n=%zu\n", cp, n); hexdump("out:", c, 4);
  return verdict(bad, "codepoint_to_utf8 disagrees with RFC 3629");
}

static int d_uesc(const Inputs &in) {
  auto s = in.B("in_src", 12);
  s[0] = '\\'; s[1] = 'u';
  uint8_t dst[8] = {0};
  const uint8_t *sp = s.data(); uint8_t *dp = dst;
  bool ok = common::handle_unicode_codepoint(&sp, &dp);
  spec_uesc_t w = spec_unicode_escape(s.data());
  hexdump("src:", s.data(), 12);
  printf("text: %.12s\n", (const char *)s.data());
  printf("real: ok=%d adv=%ld n=%ld  spec: ok=%d adv=%u n=%u\n", ok, (long)(sp - s.data()), (long)(dp - dst), w.ok, w.adv, w.n);
  hexdump("real out:", dst, 4); hexdump("spec out:", w.out, 4);
  bool bad = ok != w.ok || (ok && ((size_t)(sp - s.data()) != w.adv || (size_t)(dp - dst) != w.n || memcmp(dst, w.out, w.n) != 0));
  // also through the public API: Parse of "\"<escape>\""
  {
    std::string js = "\"" + std::string((const char *)s.data(), w.ok ? w.adv : 12) + "\"";
    Document doc; doc.Parse(js);
    printf("Document::Parse(%s) -> error=%d\n", js.c_str(), (int)doc.GetParseError());
  }
  return verdict(bad, "handle_unicode_codepoint disagrees with the RFC 8259 escape spec");
}

static int d_escmap(const Inputs &in) {
  uint8_t c = (uint8_t)in.I("in_byte");
  int want = spec_simple_escape(c);
  bool bad = ((kEscapedMap[c] != 0) != (want >= 0)) || (want >= 0 && kEscapedMap[c] != (uint8_t)want);
  printf("byte=%02x table=%02x spec=%d\n", c, kEscapedMap[c], want);
  return verdict(bad, "kEscapedMap disagrees with the eight RFC 8259 escapes");
}

#ifdef REPLAY_EXTRA
#include REPLAY_EXTRA
#endif
#include "replay_drivers.inc"

int main(int argc, char **argv) {
  if (argc < 3) { fprintf(stderr, "usage: replay <driver> <inputs>\n"); return 2; }
  Inputs in = load(argv[2]);
  std::string d = argv[1];
  if (d == "hex") return d_hex(in);
  if (d == "utf8") return d_utf8(in);
  if (d == "uesc") return d_uesc(in);
  if (d == "escmap") return d_escmap(in);
  int r = more_drivers(d, in);
  if (r >= 0) return r;
  printf("NOT-REPRODUCED unknown driver %s\n", d.c_str());
  return 0;
}
