#!/usr/bin/env python3
"""seed_confirm.py <incoming_dir> <prop> <k> — confirm a seeded change in a scratch worktree:
demo passes on the clean tree, fails with the patch, and the unedited suite passes with the patch.
On success copies patch.diff / demo / meta.json to /verif/seeded/<prop>-m<k>/ ."""
import json, os, re, shutil, subprocess, sys
inc, prop, k = sys.argv[1], sys.argv[2], sys.argv[3]
wt = "/tmp/sc_%s_%s" % (prop, k)
def sh(cmd, **kw):
    p = subprocess.run(cmd, shell=True, stdout=subprocess.PIPE, stderr=subprocess.STDOUT, **kw)
    return p.returncode, p.stdout.decode(errors="replace")
sh("git -C /repo worktree remove --force %s; rm -rf %s" % (wt, wt))
rc, o = sh("git -C /repo worktree add -q --detach %s HEAD" % wt); assert rc == 0, o
try:
    demo = os.path.join(inc, "m%s_demo.cpp" % k)
    script = os.path.join(inc, "m%s_demo.sh" % k)
    if os.path.exists(script):
        # two-configuration demo: the script builds and compares; run it on the clean and on the patched tree
        rc_clean, o_clean = sh("sh %s %s" % (script, wt), timeout=900)
        rc, o = sh("git -C %s apply %s" % (wt, os.path.abspath(os.path.join(inc, "m%s.patch" % k)))); assert rc == 0, o
        rc_mut, o_mut = sh("sh %s %s" % (script, wt), timeout=900)
        rc_suite, o_suite = sh("/verif/tools/wt_test.sh %s" % wt, timeout=1800)
        ok = rc_clean == 0 and rc_mut == 1 and rc_suite == 0
        print("clean demo exit=%d, patched demo exit=%d, suite: %s" % (rc_clean, rc_mut, o_suite.strip().splitlines()[-1] if o_suite.strip() else rc_suite))
        if ok:
            out = "/verif/seeded/%s-%s%s" % (prop, os.environ.get("SEED_TAG", "m"), k)
            os.makedirs(out, exist_ok=True)
            shutil.copy(os.path.join(inc, "m%s.patch" % k), os.path.join(out, "patch.diff"))
            shutil.copy(demo, os.path.join(out, "m%s_demo.cpp" % k)); shutil.copy(script, os.path.join(out, "m%s_demo.sh" % k))
            json.dump({"property": prop, "mutation": "m%s" % k, "demo_build": "sh m%s_demo.sh <worktree>  (builds static AVX2 and static SSE / dispatch, compares outputs)" % k,
                       "confirmed": {"demo_exit_clean": rc_clean, "demo_exit_patched": rc_mut, "suite_with_patch": o_suite.strip().splitlines()[-1]},
                       "ran": ["git worktree add <worktree>", "sh demo.sh <worktree> on clean tree", "git apply patch.diff", "sh demo.sh <worktree>", "tools/wt_test.sh <worktree>"],
                       "patched_demo_output_tail": o_mut[-600:]}, open(os.path.join(out, "meta.json"), "w"), indent=1)
            print("CONFIRMED ->", out)
        else:
            print("NOT CONFIRMED"); print(o_clean[-500:]); print(o_mut[-500:]); print(o_suite[-300:])
        sys.exit(0 if ok else 1)
    first = open(demo).readline()
    m = re.search(r"(g\+\+.*)$", first); assert m, first
    cmd = m.group(1).strip()
    cmd = re.split(r"\s{2,}\(|\s+\(|\s+#|\s+//", cmd)[0]
    cmd = re.sub(r"/tmp/seedwt2?_\w+", wt, cmd)
    cmd = re.sub(r"/tmp/%s_out2?" % prop, inc, cmd)
    cmd = re.sub(r"(?<![\w/])m%s_demo\.cpp" % k, demo, cmd)
    cmd = re.sub(r"-o\s+\S+", "-o %s/demo" % wt, cmd)
    if "-o " not in cmd: cmd += " -o %s/demo" % wt
    rc, o = sh(cmd); assert rc == 0, "demo build (clean) failed: " + cmd + "\n" + o[-2000:]
    rc_clean, o_clean = sh("%s/demo" % wt, timeout=900)
    rc, o = sh("git -C %s apply %s" % (wt, os.path.abspath(os.path.join(inc, "m%s.patch" % k)))); assert rc == 0, o
    rc, o = sh(cmd); assert rc == 0, "demo build (patched) failed: " + o[-2000:]
    rc_mut, o_mut = sh("%s/demo" % wt, timeout=900)
    rc_suite, o_suite = sh("/verif/tools/wt_test.sh %s" % wt, timeout=1800)
    ok = rc_clean == 0 and rc_mut != 0 and rc_suite == 0
    print("clean demo exit=%d, patched demo exit=%d, suite: %s" % (rc_clean, rc_mut, o_suite.strip().splitlines()[-1] if o_suite.strip() else rc_suite))
    if ok:
        out = "/verif/seeded/%s-%s%s" % (prop, os.environ.get("SEED_TAG", "m"), k)
        os.makedirs(out, exist_ok=True)
        shutil.copy(os.path.join(inc, "m%s.patch" % k), os.path.join(out, "patch.diff"))
        shutil.copy(demo, os.path.join(out, "demo.cpp"))
        for extra in os.listdir(inc):
            if extra.endswith(".h"): shutil.copy(os.path.join(inc, extra), out)
        meta = {"property": prop, "mutation": "m%s" % k, "demo_build": cmd.replace(wt, "<worktree>"),
                "confirmed": {"demo_exit_clean": rc_clean, "demo_exit_patched": rc_mut, "suite_with_patch": o_suite.strip().splitlines()[-1]},
                "ran": ["git worktree add <worktree>", "build+run demo on clean tree", "git apply patch.diff", "build+run demo", "tools/wt_test.sh <worktree> (unedited suite, project flags)"],
                "patched_demo_output_tail": o_mut[-600:]}
        json.dump(meta, open(os.path.join(out, "meta.json"), "w"), indent=1)
        print("CONFIRMED ->", out)
    else:
        print("NOT CONFIRMED"); print(o_clean[-500:]); print(o_mut[-500:]); print(o_suite[-500:])
    sys.exit(0 if ok else 1)
finally:
    sh("git -C /repo worktree remove --force %s; rm -rf %s; git -C /repo worktree prune" % (wt, wt))
