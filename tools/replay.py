"""replay.py — turn a failed obligation into a replay file and re-run it against the REAL code.

A replay file (/verif/replays/<prop>-<job>-<k>.json) names the failed obligation, carries the
verifier's output and the counterexample inputs (ghost globals in_*). tools/replay.cpp is built
against /repo's real headers and evaluates the same postcondition natively on those inputs.
"""
import json
import os
import re
import subprocess
import sys

HERE = os.path.dirname(os.path.abspath(__file__))
VERIF = os.path.dirname(HERE)
REPO = os.environ.get("VERIF_REPO", "/repo")
KNOWN = os.path.join(VERIF, "known_findings.json")
REPLAYS = os.environ.get("VERIF_REPLAY_DIR", os.path.join(VERIF, "replays"))


def load_known():
    try:
        with open(KNOWN) as f:
            return json.load(f).get("findings", [])
    except FileNotFoundError:
        return []


def build_replayer(work, sanitize=False, arch="avx2"):
    exe = os.path.join(work, "replay_%s%s" % (arch, "_asan" if sanitize else ""))
    if os.path.exists(exe):
        return exe, ""
    arch = "sse" if arch == "sse" else "avx2"      # the avx2-specific drivers need the haswell build; only sse jobs replay on westmere
    march = ["-march=haswell"] if arch == "avx2" else ["-march=westmere", "-mpclmul"]
    cmd = ["g++", "-std=c++17", "-O1", "-g", "-fno-access-control", "-I" + os.path.join(REPO, "include"),
           "-I" + os.path.join(VERIF, "specs", "include"), "-I" + os.path.join(VERIF, "models")] + march + \
          (["-fsanitize=address,undefined", "-fno-sanitize-recover=undefined"] if sanitize else []) + \
          [os.path.join(HERE, "replay.cpp"), "-o", exe]
    p = subprocess.run(cmd, stdout=subprocess.PIPE, stderr=subprocess.STDOUT)
    if p.returncode != 0:
        return None, p.stdout.decode(errors="replace")[-3000:]
    return exe, ""


def flat_inputs(inputs):
    lines = []
    for k, v in sorted(inputs.items()):
        if isinstance(v, list):
            lines.append("%s bytes %s" % (k, "".join("%02x" % (int(x) & 0xFF) for x in v) or "-"))
        elif isinstance(v, bool):
            lines.append("%s int %d" % (k, int(v)))
        elif isinstance(v, int):
            lines.append("%s int %d" % (k, v))
        else:
            lines.append("%s str %s" % (k, v))
    return "\n".join(lines) + "\n"


def run_replay(path, work):
    with open(path) as f:
        rp = json.load(f)
    driver = rp.get("driver")
    if not driver:
        return False, "no native replay driver for this obligation"
    inputs = rp.get("inputs") or {}
    if not inputs:
        return False, "verifier produced no concrete inputs"
    arch = rp.get("arch", "avx2")
    outs = []
    reproduced = False
    for san in (False, True):
        exe, err = build_replayer(work, san, arch)
        if not exe:
            outs.append("replayer build failed: " + err)
            continue
        flat = os.path.join(work, "replay_in.txt")
        with open(flat, "w") as f:
            f.write(flat_inputs(inputs))
        try:
            p = subprocess.run([exe, driver, flat], stdout=subprocess.PIPE, stderr=subprocess.STDOUT, timeout=120,
                               env=dict(os.environ, ASAN_OPTIONS="detect_leaks=0"))
            o = p.stdout.decode(errors="replace")
            rc = p.returncode
        except subprocess.TimeoutExpired:
            o, rc = "timeout", 99
        outs.append("[%s build] exit=%d\n%s" % ("asan+ubsan" if san else "production -O1", rc, o[-3000:]))
        if "REPRODUCED" in o and "NOT-REPRODUCED" not in o or (san and ("ERROR: AddressSanitizer" in o or "runtime error" in o)):
            reproduced = True
    return reproduced, "\n".join(outs)


def handle_violation(prop, jr, work, known):
    os.makedirs(REPLAYS, exist_ok=True)
    r0 = jr.failed[0]
    job = jr.job
    name = "%s-%s-%s.json" % (prop, re.sub(r"[^\w.-]", "_", job["id"]), re.sub(r"[^\w.-]", "_", r0["property"] or "obl"))
    path = os.path.join(REPLAYS, name)
    rp = {
        "property": prop, "job": job["id"], "function": job.get("function"), "arch": job.get("arch", "avx2"),
        "failed_obligation": {"name": r0["property"], "text": r0["description"],
                              "at": "%s:%s" % (r0.get("file"), r0.get("line")), "in_function": r0.get("function")},
        "all_failed_obligations": [{"name": r["property"], "text": r["description"],
                                    "at": "%s:%s" % (r.get("file"), r.get("line"))} for r in jr.failed],
        "driver": job.get("replay"),
        "inputs": getattr(jr, "trace_inputs", {}),
        "verifier_cmds": jr.cmds,
        "verifier_output": getattr(jr, "trace_text", ""),
    }
    with open(path, "w") as f:
        json.dump(rp, f, indent=1)
    reproduced, log = run_replay(path, work)
    rp["native_replay"] = {"reproduced": reproduced, "log": log}
    if not reproduced:
        rp["no_failing_input_reason"] = log.splitlines()[0] if log else "n/a"
    with open(path, "w") as f:
        json.dump(rp, f, indent=1)
    # known findings: an OPEN finding suppresses exactly one (job, obligation text) pair
    for k in known:
        if k.get("status") == "open" and k.get("property") == prop and k.get("job") == job["id"] \
                and k.get("obligation_text") == r0["description"] and len(jr.failed) == 1:
            return path, reproduced, "%s (job %s, obligation %s)" % (k.get("what"), job["id"], r0["description"])
    return path, reproduced, None


def write_native_violation(prop, rep):
    os.makedirs(REPLAYS, exist_ok=True)
    path = os.path.join(REPLAYS, "%s-native-%s.json" % (prop, rep["id"]))
    with open(path, "w") as f:
        json.dump({"property": prop, "native_step": rep["id"], "failed_obligation": rep.get("obligation"),
                   "inputs": rep.get("inputs"), "log": rep.get("msg", "")[-6000:]}, f, indent=1)
    return path


if __name__ == "__main__":
    import tempfile, shutil
    w = tempfile.mkdtemp(prefix="verif-replay-", dir="/var/tmp")
    try:
        ok, log = run_replay(sys.argv[1], w)
        print(log)
        print("REPLAY: " + ("failure reproduced on the real code" if ok else "not reproduced"))
        sys.exit(1 if ok else 0)
    finally:
        shutil.rmtree(w, ignore_errors=True)
