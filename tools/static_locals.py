#!/usr/bin/env python3
"""static_locals.py <property> — supporting static fact: no function sliced for this property declares a mutable function-local
static (hidden state would make its result depend on earlier calls, which a per-call contract cannot see; const tables are fine).
Exit 0 ok, 1 a mutable local static exists (FAIL lines), 2 tool-side."""
import os, re, sys
HERE = os.path.dirname(os.path.abspath(__file__)); VERIF = os.path.dirname(HERE)
sys.path.insert(0, os.path.join(VERIF, "specs")); sys.path.insert(0, HERE)
import slice as S, units as U, jobs as J
prop = sys.argv[1]
names = []
for j in J.PROPS[prop]["jobs"]:
    for n in j.get("units", []):
        if n not in names: names.append(n)
bad = []; n_funcs = 0
for n in names:
    u = U.UNITS[n]
    if u.get("kind", "func") not in ("func", "block"): continue
    try:
        src = S.read(u["file"]); mo = S.locate(src, u["anchor"], n, u.get("nth"), u.get("after"))
        ob = src.index("{", mo.end() - 1 if u.get("kind") == "block" else src.index(")", mo.start()))
        cb = S._scan(src, ob, "{", "}")
    except Exception as e:
        print("TOOL: cannot locate %s: %s" % (n, e)); sys.exit(2)
    body = S._mask_noncode(src[ob:cb + 1]); n_funcs += 1
    for m in re.finditer(r"\bstatic\b([^;{}()]*)", body):
        decl = " ".join(m.group(1).split())
        start = max(body.rfind(c, 0, m.start()) for c in ";{}") + 1
        whole = body[start:m.end()].split("=")[0]            # the declaration specifiers on both sides of `static`
        if re.search(r"\bconst(expr)?\b", whole) or "_cast" in whole: continue
        line = src.count("\n", 0, ob + m.start()) + 1
        bad.append("FAIL %s:%d %s declares a mutable function-local static: `static %s`" % (u["file"], line, n, decl[:80]))
print("STAT functions_scanned=%d" % n_funcs)
for b in bad: print(b)
sys.exit(1 if bad else 0 if n_funcs else 2)
