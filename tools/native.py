"""native.py — supporting native steps (never the deciding step of a proof-level claim, except the
exhaustive enumeration of the finite 8-digit kernels of C08, which is labelled exhaustive)."""
import os
import subprocess
import time

HERE = os.path.dirname(os.path.abspath(__file__))
VERIF = os.path.dirname(HERE)
REPO = os.environ.get("VERIF_REPO", "/repo")


def sh(cmd, timeout=1800, cwd=None):
    try:
        p = subprocess.run(cmd, stdout=subprocess.PIPE, stderr=subprocess.STDOUT, timeout=timeout, cwd=cwd)
        return p.returncode, p.stdout.decode(errors="replace")
    except subprocess.TimeoutExpired:
        return -9, "timeout"


def run_step(step, work, tier, seed):
    t0 = time.time()
    rep = {"id": step["id"], "kind": step["kind"], "status": "error", "msg": ""}
    if step["kind"] == "script":
        # supporting static fact computed by a script over /repo's text (exit 0 ok, 1 a named fact fails, else tool error)
        cmd = ["python3", os.path.join(VERIF, step["src"])] + step.get("args", [])
        rc, out = sh(cmd, timeout=step.get("timeout", 600))
        rep["seconds"] = round(time.time() - t0, 1); rep["output_tail"] = out[-1500:]; rep["cmd"] = " ".join(cmd)
        for line in out.splitlines():
            if line.startswith("STAT "):
                k, v = line[5:].split("=", 1); rep[k.strip()] = v.strip()
        if rc == 0:
            rep["status"] = "ok"
        elif rc == 1:
            rep["status"] = "violation"; rep["msg"] = out[-3000:]; rep["obligation"] = step.get("obligation")
            rep["has_input"] = True; rep["inputs"] = [l for l in out.splitlines() if l.startswith("FAIL ")][:5]
        else:
            rep["msg"] = "exit %d: %s" % (rc, out[-2000:])
        return rep
    exe = os.path.join(work, "native_" + step["id"])
    cmd = [step.get("cxx", "g++"), "-std=c++17", "-O2"] + step.get("cflags", []) + \
          ["-I" + os.path.join(REPO, "include"), "-I" + os.path.join(VERIF, "models"),
           "-I" + os.path.join(VERIF, "specs", "include"), "-I" + work,
           os.path.join(VERIF, step["src"]), "-o", exe] + step.get("ldflags", [])
    rc, out = sh(cmd)
    if rc != 0:
        rep["msg"] = "build failed: " + out[-3000:]
        return rep
    n = step.get("n_thorough" if tier == "thorough" else "n_quick", 0)
    rc, out = sh([exe, str(n), str(seed)] + step.get("args", []), timeout=step.get("timeout", 3600))
    rep["seconds"] = round(time.time() - t0, 1)
    rep["output_tail"] = out[-1500:]
    rep["cmd"] = " ".join(cmd)
    if rc == 0:
        rep["status"] = "ok"
        for line in out.splitlines():
            if line.startswith("STAT "):
                k, v = line[5:].split("=", 1)
                try:
                    rep[k.strip()] = int(v)
                except ValueError:
                    rep[k.strip()] = v.strip()
    elif rc == 1 and step["kind"] == "exhaustive":
        rep["status"] = "violation"
        rep["msg"] = out[-3000:]
        rep["obligation"] = step.get("obligation")
        rep["has_input"] = True
        rep["inputs"] = [l for l in out.splitlines() if l.startswith("FAIL ")][:5]
    else:
        rep["msg"] = "exit %d: %s" % (rc, out[-3000:])
    return rep
