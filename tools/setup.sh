#!/bin/sh
# offline setup: nothing to build ahead of time (every check regenerates what it needs); just verify tools exist
for t in cbmc goto-cc goto-instrument g++ gcc python3 z3; do command -v $t >/dev/null || { echo "missing $t"; exit 1; }; done
cbmc --version
mkdir -p /verif/evidence /verif/replays
exit 0
