#!/bin/sh
# wt_test.sh <worktree>: build the unedited test suite of a sonic-cpp worktree (same flags as /repo/_build) and run it.
# Prints "SUITE passed=<n> failed=<m>"; exit 0 iff all 173 baseline tests pass.
W="$1"; [ -d "$W/tests" ] || { echo "usage: wt_test.sh <worktree>"; exit 2; }
O="$W/_t"; mkdir -p "$O"
FL="-std=c++17 -Wno-error -O2 -g0 -DNDEBUG -O0 -fsanitize=address -Werror -Wall -mavx2 -mpclmul -mbmi -mlzcnt -DGTEST_HAS_PTHREAD=1 -I$W/include -I$W -isystem /usr/src/googletest/googletest/include"
fail=0
for f in "$W"/tests/*.cpp; do
  ( g++ $FL -c "$f" -o "$O/$(basename "$f").o" 2>"$O/$(basename "$f").log" || echo "COMPILE-FAIL $f" ) &
done
wait
grep -l . "$O"/*.log 2>/dev/null | while read l; do if grep -q "error" "$l"; then echo "compile error in $l"; head -20 "$l"; fi; done
ls "$O"/*.o >/dev/null 2>&1 || exit 2
g++ -fsanitize=address "$O"/*.o /repo/_build/lib/libgtest.a /repo/_build/lib/libgtest_main.a -lpthread -o "$O/unittest" || exit 2
( cd "$O" && ./unittest --gtest_output=xml:"$O/r.xml" >"$O/run.log" 2>&1 )
python3 - "$O/r.xml" <<'PY'
import json, sys, xml.etree.ElementTree as ET
want = set(json.load(open('/root/.vp/BASELINE.json'))['stable_pass'])
root = ET.parse(sys.argv[1]).getroot()
passed = set()
for tc in root.iter('testcase'):
    ok = tc.find('failure') is None and tc.find('error') is None
    if ok: passed.add("%s::%s" % (tc.get('classname'), tc.get('name')))
missing = sorted(want - passed)
print("SUITE passed=%d failed_baseline=%d %s" % (len(passed & want), len(missing), missing[:10]))
sys.exit(1 if missing else 0)
PY
