#!/usr/bin/env python3
"""seed_table.py <run log> — render the seeded-change table of DESIGN.md section 10 from tools/seed_run.sh output lines
("seed <id> check <prop>: exit=<rc>" followed by VIOLATION/TOOL lines)."""
import json, os, re, sys
rows, cur = [], None
import itertools
for ln in itertools.chain.from_iterable(open(f, errors="replace") for f in sys.argv[1:]):
    m = re.match(r"seed (\S+) check (\S+): exit=(\d+)", ln)
    if m:
        cur = dict(seed=m.group(1), prop=m.group(2), rc=int(m.group(3)), obl=[], repro=False); rows.append(cur); continue
    m = re.match(r"VIOLATION property=\S+ replay=(\S+)(.*)", ln)
    if m and cur is not None:
        name = os.path.basename(m.group(1)).replace(".json", "")
        name = re.sub(r"^%s-" % cur["prop"], "", name)
        cur["obl"].append(name)
        if "no-failing-input-found" not in m.group(2): cur["repro"] = True
def what(seed):
    try:
        p = "/verif/seeded/%s/patch.diff" % seed
        files = sorted(set(re.findall(r"^\+\+\+ b/(\S+)", open(p).read(), re.M)))
        return ", ".join(os.path.basename(f) for f in files)
    except Exception:
        return ""
last = {}
for r in rows: last[(r["seed"], r["prop"])] = r          # a later run of the same (seed, check) replaces an earlier one
rows = sorted(last.values(), key=lambda r: (r["seed"].startswith("R-"), r["seed"], r["prop"]))
print("| seeded change | touches | check | result | failed obligation(s) |")
print("|---|---|---|---|---|")
for r in rows:
    res = {0: "**missed** (exit 0)", 1: "caught" + (" (replayed natively)" if r["repro"] else " (no-failing-input-found)"), 2: "undecided (exit 2: tool-side)"}.get(r["rc"], str(r["rc"]))
    print("| %s | %s | %s | %s | %s |" % (r["seed"], what(r["seed"]), r["prop"], res, "; ".join(r["obl"][:2]) + (" …" if len(r["obl"]) > 2 else "")))
