#!/bin/sh
# Build /repo/_build (guard BYTEDANCE_SONIC_CPP_VERIF is never defined by the repo's own build) and run the
# pinned suite; succeed iff every test in BASELINE.json stable_pass passes.
set -e
B=/repo/_build
[ -f $B/build.ninja ] || cmake -S /repo -B $B -G Ninja -DCMAKE_BUILD_TYPE=RelWithDebInfo -DBUILD_TESTING=ON >/dev/null
cmake --build $B -j16 >/tmp/verif_baseline_build.log 2>&1 || { tail -40 /tmp/verif_baseline_build.log; exit 2; }
X=$(mktemp /tmp/verif_gtest_XXXXXX.xml)
(cd $B/tests && ./unittest --gtest_output=xml:$X >/tmp/verif_baseline_run.log 2>&1) || true
python3 - "$X" <<'PY'
import json, sys, xml.etree.ElementTree as ET
want = set(json.load(open('/root/.vp/BASELINE.json'))['stable_pass']) if __import__('os').path.exists('/root/.vp/BASELINE.json') else None
root = ET.parse(sys.argv[1]).getroot()
passed = set()
for tc in root.iter('testcase'):
    ok = tc.find('failure') is None and tc.find('error') is None and tc.get('status', 'run') == 'run'
    name = "%s::%s" % (tc.get('classname'), tc.get('name'))
    if ok: passed.add(name)
print("passed:", len(passed))
if want is not None:
    missing = sorted(want - passed)
    print("baseline stable_pass missing:", missing)
    sys.exit(1 if missing else 0)
sys.exit(0 if len(passed) >= 173 else 1)
PY
rc=$?; rm -f "$X"; exit $rc
