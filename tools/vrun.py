#!/usr/bin/env python3
"""vrun.py — run the contract proofs of one property and write its evidence file.

  vrun.py <PROPERTY> [--tier quick|thorough] [--jobs N] [--only JOBID,...] [--keep]

Pipeline per job (see specs/jobs.py):
  slice.py (regenerate C from /repo)  ->  goto-cc  ->  [goto-instrument --unwindset]
  ->  [goto-instrument --dfcc H --enforce-contract F --replace-call-with-contract G
       --apply-loop-contracts]  ->  cbmc --json-ui

Exit codes: 0 all obligations discharged and every canary failed;
            1 an obligation has status FAILURE (VIOLATION line printed, replay file written);
            2 anything else (timeout, OOM, tool error, extraction break, vacuity anomaly).
"""
import argparse
import concurrent.futures as cf
import hashlib
import json
import os
import re
import resource
import shutil
import subprocess
import sys
import tempfile
import time

HERE = os.path.dirname(os.path.abspath(__file__))
VERIF = os.path.dirname(HERE)
sys.path.insert(0, os.path.join(VERIF, "specs"))
sys.path.insert(0, HERE)
import slice as slicer  # noqa: E402

REPO = os.environ.get("VERIF_REPO", "/repo")
CBMC_CHECKS = ["--bounds-check", "--pointer-check", "--pointer-overflow-check",
               "--undefined-shift-check", "--div-by-zero-check", "--signed-overflow-check",
               "--pointer-primitive-check"]
MEM_LIMIT = 24 << 30


def _limits():
    resource.setrlimit(resource.RLIMIT_AS, (MEM_LIMIT, MEM_LIMIT))
    os.setsid()


def run(cmd, timeout, cwd=None, capture=True):
    t0 = time.time()
    try:
        p = subprocess.run(cmd, cwd=cwd, stdout=subprocess.PIPE, stderr=subprocess.STDOUT,
                           timeout=timeout, preexec_fn=_limits)
        return p.returncode, p.stdout.decode(errors="replace"), time.time() - t0
    except subprocess.TimeoutExpired as e:
        out = (e.stdout or b"").decode(errors="replace")
        return -9, out + "\nTIMEOUT after %ss" % timeout, time.time() - t0


class ToolError(Exception):
    pass


def parse_cbmc_json(out):
    """Return (results, messages). results: list of dicts(property, description, status, file, line, function)."""
    try:
        i = out.index("[")
        doc = json.loads(out[i:])
    except Exception:
        # cbmc may have been killed mid-output: try to cut at the last complete element
        raise ToolError("cannot parse cbmc json output: " + out[-2000:])
    results, msgs, status = [], [], None
    for el in doc:
        if "result" in el:
            for r in el["result"]:
                sl = r.get("sourceLocation", {})
                results.append(dict(property=r.get("property"), description=r.get("description"),
                                    status=r.get("status"), file=sl.get("file"), line=sl.get("line"),
                                    function=sl.get("function"), trace=r.get("trace")))
        elif "messageText" in el:
            msgs.append(el["messageText"])
        elif "cProverStatus" in el:
            status = el["cProverStatus"]
    return results, msgs, status


def parse_cbmc_text(out):
    """Plain-text result parser (the JSON UI always renders a full trace for every failed obligation — including the
    canary — which runs out of memory on harnesses with very large symbolic objects)."""
    results, msgs, status = [], [], None
    cur_file = cur_fn = None
    seen_results = False
    for ln in out.splitlines():
        if ln.startswith("** Results:"):
            seen_results = True
            continue
        m = re.match(r"^(\S.*) function (\S+)$", ln)
        if m and seen_results:
            cur_file, cur_fn = m.group(1), m.group(2)
            continue
        m = re.match(r"^\[(\S+)\] (?:file (\S+) )?line (\d+) (.*): (SUCCESS|FAILURE|UNKNOWN|ERROR)$", ln)
        if m:
            results.append(dict(property=m.group(1), description=m.group(4), status=m.group(5), file=m.group(2) or cur_file,
                                line=m.group(3), function=cur_fn, trace=None))
            continue
        m = re.match(r"^\[(\S+)\] (.*): (SUCCESS|FAILURE|UNKNOWN|ERROR)$", ln)
        if m:
            results.append(dict(property=m.group(1), description=m.group(2), status=m.group(3), file=cur_file, line=None, function=cur_fn, trace=None))
            continue
        if "ignoring" in ln or ln.startswith("warning"):
            msgs.append(ln)
        if ln.startswith("VERIFICATION "):
            status = ln.split()[1].lower()
    if status is None:
        raise ToolError("cbmc produced no verdict: " + out[-2000:])
    return results, msgs, status


def trace_inputs(trace):
    """Collect the last value assigned to every ghost input (globals named in_*)."""
    vals = {}
    for st in trace or []:
        if st.get("stepType") != "assignment":
            continue
        lhs = st.get("lhs", "")
        if not lhs.startswith("in_"):
            continue
        v = st.get("value", {})
        def conv(v):
            if "elements" in v:
                return [conv(e["value"]) for e in v["elements"]]
            if "members" in v:
                return {m["name"]: conv(m["value"]) for m in v["members"]}
            d = v.get("data")
            if d is None:
                return None
            try:
                return int(re.sub(r"(?i)[ul]+$", "", d)) if isinstance(d, str) else int(d)
            except Exception:
                if v.get("binary") and v.get("type", "").startswith(("unsigned", "signed", "char", "_Bool", "const")):
                    try:
                        return int(v["binary"], 2)
                    except Exception:
                        return d
                return d
        vals[lhs] = conv(v)
    # fold indexed elements "in_src[3l]" into arrays
    out = {}
    for k, v in vals.items():
        m = re.match(r"^(\w+)\[(\d+)[a-z]*\]$", k)
        if m:
            out.setdefault(m.group(1), {})
            if isinstance(out[m.group(1)], dict):
                out[m.group(1)][int(m.group(2))] = v
        elif k not in out or not isinstance(out[k], dict):
            if isinstance(v, list):
                out[k] = {i: x for i, x in enumerate(v)}
            else:
                out[k] = v
    for k, v in list(out.items()):
        if isinstance(v, dict) and all(isinstance(i, int) for i in v.keys()):
            n = max(v.keys()) + 1 if v else 0
            out[k] = [v.get(i, 0) if v.get(i, 0) is not None else 0 for i in range(n)]
    return out


class JobResult:
    def __init__(self, job):
        self.job = job
        self.status = "error"   # ok | violation | error
        self.obligations = []
        self.failed = []
        self.canary_ok = False
        self.msg = ""
        self.secs = {}
        self.cmds = []
        self.loop_obl = 0


def run_job(job, work, tier):
    jr = JobResult(job)
    jid = job["id"]
    d = os.path.join(work, re.sub(r"[^\w.-]", "_", jid))
    os.makedirs(d, exist_ok=True)
    cur = build_binary(job, work, d, jr, [])
    if cur is None:
        return jr
    return check_binary(job, work, d, jr, cur, tier)


def build_binary(job, work, d, jr, extra_defs):
    src = os.path.join(VERIF, "specs", job["src"])
    a = os.path.join(d, "a.gb")
    defs = ["-DVERIF_CBMC"] + ["-D" + x for x in job.get("defs", []) + extra_defs]
    inc = ["-I" + os.path.join(VERIF, "models"), "-I" + os.path.join(VERIF, "specs", "include"), "-I" + work]
    cmd = ["goto-cc"] + defs + inc + ["--function", job["harness"], src, "-o", a]
    jr.cmds.append(" ".join(cmd))
    rc, out, s = run(cmd, 300)
    jr.secs["goto-cc"] = round(s, 2)
    if rc != 0:
        jr.msg = "goto-cc failed (lowering/extraction break):\n" + out[-3000:]
        return None
    cur = a
    if job.get("unwindset"):
        b = os.path.join(d, "u.gb")
        cmd = ["goto-instrument", "--unwindset", job["unwindset"], "--unwinding-assertions", cur, b]
        jr.cmds.append(" ".join(cmd))
        rc, out, s = run(cmd, 600)
        if rc != 0:
            jr.msg = "goto-instrument --unwindset failed:\n" + out[-3000:]
            return None
        cur = b
    if job.get("enforce") or job.get("loop_contracts") or job.get("replace"):
        b = os.path.join(d, "c.gb")
        cmd = ["goto-instrument"] + job.get("gi_flags", []) + ["--dfcc", job["harness"]]
        if job.get("enforce"):
            cmd += ["--enforce-contract", job["enforce"]]
        for g in job.get("replace", []):
            cmd += ["--replace-call-with-contract", g]
        if job.get("loop_contracts"):
            cmd += ["--apply-loop-contracts"]
        cmd += [cur, b]
        jr.cmds.append(" ".join(cmd))
        rc, out, s = run(cmd, 900)
        jr.secs["goto-instrument"] = round(s, 2)
        if rc != 0:
            jr.msg = "goto-instrument --dfcc failed:\n" + out[-3000:]
            return None
        cur = b
    return cur


def check_binary(job, work, d, jr, cur, tier):
    # generous limits: the stated per-job timeouts are about 4x the time measured on an idle 16-core machine; doubled again so
    # that a loaded machine produces a slow answer rather than a tool error
    timeout = int(os.environ.get("VERIF_TIMEOUT", job.get("timeout", 900) * (3 if tier == "thorough" else 2)))
    cmd = ["cbmc", cur, "--drop-unused-functions"] + [c for c in CBMC_CHECKS if c not in job.get("checks_off", [])]
    if job.get("unwind"):
        cmd += ["--unwind", str(job["unwind_thorough"] if tier == "thorough" and job.get("unwind_thorough") else job["unwind"]),
                "--unwinding-assertions"]
    if job.get("unwind_paths"):
        # explore every path with at most N traversals of each back-edge (no unwinding assertions: longer paths are cut off);
        # only used for jobs labelled bounded
        cmd += ["--unwind", str(job["unwind_paths"]), "--no-unwinding-assertions"]
    if job.get("cbmc_unwindset"):
        cmd += ["--unwindset", job["cbmc_unwindset"]] + ([] if job.get("unwind") or job.get("unwind_paths") else ["--unwinding-assertions"])
    if job.get("object_bits"):
        cmd += ["--object-bits", str(job["object_bits"])]
    cmd += job.get("flags", [])
    if job.get("solver"):
        cmd += ["--sat-solver", job["solver"]]
    if job.get("smt"):
        cmd += ["--" + job["smt"]]
    jr.cmds.append(" ".join(cmd))
    with open(os.path.join(d, "cmds.sh"), "w") as fh:
        fh.write("\n".join(jr.cmds) + "\n")
    rc, out, s = run(cmd, timeout)
    jr.secs["cbmc"] = round(s, 2)
    if rc == -9:
        jr.msg = "cbmc timeout after %ds" % timeout
        return jr
    if rc not in (0, 10):
        jr.msg = "cbmc exit %d:\n%s" % (rc, out[-3000:])
        return jr
    try:
        results, msgs, status = parse_cbmc_text(out)
    except ToolError as e:
        jr.msg = str(e)
        return jr
    if any("ignoring" in m for m in msgs):
        jr.msg = "cbmc ignored a construct: " + "; ".join(m for m in msgs if "ignoring" in m)[:500]
        return jr
    jr.obligations = results
    canaries = [r for r in results if (r["description"] or "").startswith("CANARY")]
    others = [r for r in results if not (r["description"] or "").startswith("CANARY")]
    ignore = job.get("observe", [])   # obligation classes reported as observations (see DESIGN section 3)
    obs = []
    failed = []
    undecided = []
    for r in others:
        if r["status"] == "SUCCESS":
            continue
        if r["status"] != "FAILURE":
            # CBMC reports UNKNOWN for obligations it leaves undecided once an undefined-behaviour check failed
            if any(re.search(p, (r["description"] or "")) and (f is None or (r.get("function") or "") == f) for p, f in ignore):
                obs.append(r)
                continue
            undecided.append(r)
            continue
        if any(re.search(p, (r["description"] or "")) and (f is None or (r.get("function") or "") == f) for p, f in ignore):
            obs.append(r)
            continue
        failed.append(r)
    jr.observations = obs
    if job.get("route") == "O":
        # observation job: the named check classes are switched back on; everything it flags must match the
        # allowed patterns; nothing from this job is counted as an obligation
        jr.others = []
        if failed:
            jr.msg = "observation job flags something outside the recorded observation classes: " + failed[0]["description"]
            return jr
        jr.canary_ok = True
        jr.status = "ok"
        return jr
    jr.others = others
    undef = [r for r in failed if "undefined function should be unreachable" in (r["description"] or "")]
    if undef:
        jr.msg = "the sliced code calls a function that is not part of this job's units (tool-side, not a violation): %s in %s" % (undef[0]["property"], undef[0].get("function"))
        return jr
    if undecided and not failed:
        jr.msg = "%d obligations left undecided by cbmc (status %s), e.g. %s" % (len(undecided), undecided[0]["status"], undecided[0]["description"])
        return jr
    if not canaries:
        jr.msg = "no canary obligation in harness (vacuity guard missing)"
        return jr
    jr.canary_ok = all(c["status"] == "FAILURE" for c in canaries)
    unwind_fail = [r for r in failed if "unwinding assertion" in (r["description"] or "") or "unwound" in (r["description"] or "")]
    loops_seen = set()
    for r in others:
        m = re.search(r"Check invariant after step for loop (\S+)", r["description"] or "")
        if m:
            loops_seen.add(m.group(1))
    jr.loop_obl = len(loops_seen)
    if job.get("loop_contracts") and jr.loop_obl < job.get("expect_loops", 1):
        jr.msg = "loop contracts: %d loops carry invariant obligations, spec expects %d (contract silently dropped?)" % (jr.loop_obl, job.get("expect_loops", 1))
        return jr
    if len(others) < job.get("min_obligations", 1):
        jr.msg = "only %d obligations generated (expected at least %d)" % (len(others), job.get("min_obligations", 1))
        return jr
    if unwind_fail:
        jr.msg = "unwinding assertion failed (bound too small; tool-side): " + unwind_fail[0]["description"]
        return jr
    if failed:
        # named property obligations (postconditions, labelled assertions) first: they carry the clearest counterexample
        failed.sort(key=lambda r: 0 if re.match(r"C\d\d\.", r["description"] or "") else 1 if "ensures" in (r["description"] or "") else 2)
        jr.status = "violation"
        jr.failed = failed
        # fetch a trace for the first failing obligation
        r0 = failed[0]
        cmd = [c for c in cmd if c != "--slice-formula"]      # keep the recorded inputs (in_*) in the counterexample trace
        if job.get("small_cex"):
            # ask for a counterexample that can be materialised natively: same job, sizes bounded by -DSMALL_CEX; if the
            # obligation does not fail under that bound the unrestricted counterexample is used
            d2 = d + "_small"
            os.makedirs(d2, exist_ok=True)
            jr2 = JobResult(job)
            b2 = build_binary(job, work, d2, jr2, ["SMALL_CEX"])
            if b2 is not None:
                cmdS = [b2 if c == cur else c for c in cmd] + ["--json-ui", "--trace", "--property", r0["property"]]
                rcS, outS, _ = run(cmdS, timeout)
                try:
                    resS, _, _ = parse_cbmc_json(outS)
                    if any(r["property"] == r0["property"] and r["status"] == "FAILURE" and r.get("trace") for r in resS):
                        cmd = [b2 if c == cur else c for c in cmd]
                except ToolError:
                    pass
        cmd2 = cmd + ["--json-ui", "--trace", "--property", r0["property"]]
        rc2, out2, s2 = run(cmd2, timeout)
        jr.secs["cbmc-trace"] = round(s2, 2)
        jr.trace_inputs = {}
        jr.trace_text = ""
        try:
            res2, _, _ = parse_cbmc_json(out2)
            for r in res2:
                if r["property"] == r0["property"] and r.get("trace"):
                    jr.trace_inputs = trace_inputs(r["trace"])
        except ToolError:
            pass
        rc3, out3, _ = run(cmd + ["--trace", "--property", r0["property"]], timeout)
        jr.trace_text = out3[-6000:]
        return jr
    if not jr.canary_ok:
        jr.msg = "canary did not fail: the harness post-state is unreachable (contradictory precondition) — vacuous"
        return jr
    jr.status = "ok"
    return jr


def main():
    ap = argparse.ArgumentParser()
    ap.add_argument("prop")
    ap.add_argument("--tier", default=os.environ.get("VERIF_TIER", "quick"))
    ap.add_argument("--jobs", type=int, default=int(os.environ.get("VERIF_JOBS", "16")))
    ap.add_argument("--only", default="")
    ap.add_argument("--keep", action="store_true")
    ap.add_argument("--no-evidence", action="store_true")
    args = ap.parse_args()
    import jobs as J
    import units as U
    import native as N
    prop = args.prop
    seed = int(os.environ.get("VERIF_SEED", "1"))
    t0 = time.time()
    spec = J.PROPS[prop]
    joblist = [j for j in spec["jobs"] if args.tier == "thorough" or not j.get("thorough_only")]
    if args.only:
        keep = set(args.only.split(","))
        joblist = [j for j in joblist if j["id"] in keep]
    work = tempfile.mkdtemp(prefix="verif-%s-" % prop, dir=os.environ.get("VERIF_TMP", "/var/tmp"))
    rc_final = 0
    try:
        # 1. slice
        gen = os.path.join(work, "gen")
        names = []
        for j in joblist:
            for n in j.get("units", []):
                if n not in names:
                    names.append(n)
        for n in spec.get("units", []):
            if n not in names:
                names.append(n)
        if "error_enum" not in names:
            names.insert(0, "error_enum")
        try:
            manifest = slicer.generate(U.UNITS, names, gen)
        except slicer.SliceError as e:
            print("TOOL: extraction break: %s" % e)
            return 2
        # 2. native supporting steps (model validation, translation validation, exhaustive kernels)
        native_reports = []
        for step in spec.get("native", []):
            rep = N.run_step(step, work, args.tier, seed)
            native_reports.append(rep)
            if rep["status"] == "error":
                print("TOOL: native step %s failed: %s" % (step["id"], rep["msg"][-2000:]))
                rc_final = 2
            elif rep["status"] == "violation":
                rc_final = max(rc_final, 1)
        # 3. cbmc jobs in parallel
        results = []
        with cf.ThreadPoolExecutor(max_workers=args.jobs) as ex:
            futs = {ex.submit(run_job, j, work, args.tier): j for j in joblist}
            for f in cf.as_completed(futs):
                jr = f.result()
                results.append(jr)
                tag = {"ok": "ok", "violation": "VIOLATED", "error": "TOOL-ERROR"}[jr.status]
                nobl = len(getattr(jr, "others", []))
                print("[%s] %-44s %-10s obligations=%d cbmc=%ss %s" % (
                    prop, jr.job["id"], tag, nobl, jr.secs.get("cbmc", "-"),
                    ("" if jr.status == "ok" else jr.msg.splitlines()[0] if jr.msg else "")), flush=True)
        results.sort(key=lambda r: r.job["id"])
        # 4. violations -> replay files
        import replay as R
        known = R.load_known()
        violations = 0
        for rep in native_reports:
            if rep["status"] == "violation":
                path = R.write_native_violation(prop, rep)
                print("VIOLATION property=%s replay=%s%s" % (prop, path, "" if rep.get("has_input") else " no-failing-input-found"))
                violations += 1
        for jr in results:
            if jr.status == "error":
                print("TOOL: job %s: %s" % (jr.job["id"], jr.msg[:3000]))
                rc_final = max(rc_final, 2) if rc_final != 1 else 1
            elif jr.status == "violation":
                path, reproduced, kf = R.handle_violation(prop, jr, work, known)
                if kf:
                    print("KNOWN-FINDING: property=%s %s" % (prop, kf))
                    continue
                violations += 1
                print("VIOLATION property=%s replay=%s%s" % (prop, path, "" if reproduced else " no-failing-input-found"))
        if violations:
            rc_final = 1
        # 5. evidence
        if not args.no_evidence and not args.only and not os.environ.get("VERIF_NO_EVIDENCE"):
            write_evidence(prop, spec, args.tier, seed, results, native_reports, manifest, time.time() - t0, violations, rc_final)
        return rc_final
    finally:
        if not args.keep:
            shutil.rmtree(work, ignore_errors=True)
        else:
            print("kept work dir", work)


def write_evidence(prop, spec, tier, seed, results, native_reports, manifest, wall, violations, rc):
    proof_obl = proof_dis = 0
    bounded_obl = bounded_dis = 0
    funcs = []
    samples = []
    canaries = 0
    solver_s = 0.0
    cmds = []
    observations = []
    for jr in results:
        j = jr.job
        others = getattr(jr, "others", [])
        n = len(others)
        dis = len([r for r in others if r["status"] == "SUCCESS"])
        route = j.get("route", "L")
        if route.startswith("B"):
            bounded_obl += n
            bounded_dis += dis
        else:
            proof_obl += n
            proof_dis += dis
        canaries += 1 if jr.canary_ok else 0
        solver_s += jr.secs.get("cbmc", 0)
        funcs.append({"job": j["id"], "function": j.get("function", j.get("enforce") or j["harness"]),
                      "route": route, "bound": j.get("bound"), "arch": j.get("arch"),
                      "status": jr.status, "obligations": n, "discharged": dis,
                      "loop_invariant_obligations": jr.loop_obl,
                      "backend": ("cbmc 6.11 SMT2 (%s)" % j["smt"]) if j.get("smt") else "cbmc 6.11 SAT (%s)" % (j.get("solver") or "minisat2"),
                      "seconds": jr.secs, "claims": j.get("claims", "")})
        for r in others:
            d = r["description"] or ""
            if d.startswith(prop + ".") and len(samples) < 40:
                samples.append({"job": j["id"], "obligation": r["property"], "text": d, "status": r["status"],
                                "at": "%s:%s" % (r.get("file"), r.get("line"))})
        for o in getattr(jr, "observations", []):
            observations.append({"job": j["id"], "obligation": o["property"], "text": o["description"],
                                 "at": "%s:%s" % (o.get("file"), o.get("line"))})
        if jr.cmds:
            cmds.append(jr.cmds[-1])
    sliced = [{"unit": k, "file": v["file"], "lines": v["lines"], "sha": v["sha256_of_sliced_text"],
               "rules_fired": v["rules_fired"], "loop_contracts": v["loop_contracts"]} for k, v in manifest.items()]
    level = spec.get("level", "proof")
    cov = {
        "obligations": proof_obl, "discharged": proof_dis,
        "bounded_obligations": bounded_obl, "bounded_discharged": bounded_dis,
        "checker_cmd": "; ".join(results[0].cmds) if results else "",
        "trusted_base": spec.get("trusted_base", []),
        "functions_under_contract": funcs,
        "canaries_failed_as_required": canaries, "jobs": len(results),
        "solver_seconds_total": round(solver_s, 1),
        "sliced_units": sliced,
        "native_steps": [{k: v for k, v in r.items() if k != "log"} for r in native_reports],
        "observations": observations,
        "samples": samples or [{"note": "no labelled obligations"}],
        "explanation": ("%d CBMC jobs (%d complete/unbounded, %d bounded stand-ins); %d+%d obligations, %d+%d discharged; "
                        "level is 'proof' only when every deciding job is complete/unbounded, otherwise 'other'. " % (
                            len(results), len([r for r in results if not r.job.get("route", "L").startswith("B")]),
                            len([r for r in results if r.job.get("route", "L").startswith("B")]),
                            proof_obl, bounded_obl, proof_dis, bounded_dis)) + spec.get("explanation", ""),
        "undecided": spec.get("undecided", []),
        "exit_code": rc,
    }
    ev = {"property_id": prop, "tier": tier, "seed": seed, "level": level, "coverage": cov,
          "assumptions": spec.get("assumptions", []), "wall_s": round(wall, 1), "violations": violations}
    os.makedirs(os.path.join(VERIF, "evidence"), exist_ok=True)
    with open(os.path.join(VERIF, "evidence", prop + ".json"), "w") as f:
        json.dump(ev, f, indent=1)


if __name__ == "__main__":
    sys.exit(main())
