#!/usr/bin/env python3
"""ifunc_check.py — supporting static fact for C15: every runtime-dispatch wrapper in x86_ifuncs/*.h that carries a
target(SONIC_WESTMERE) / target(SONIC_HASWELL) attribute is a pure forwarder `return <sse|avx2>::<same name>(<its own
parameters, in order>);`. Exit 0 ok, 1 a wrapper is not a pure forwarder (prints FAIL lines), 2 nothing found."""
import glob, os, re, sys
REPO = os.environ.get("VERIF_REPO", "/repo")
sys.path.insert(0, os.path.dirname(os.path.abspath(__file__)))
from slice import _scan, _mask_noncode
n = 0; bad = []
for f in sorted(glob.glob(os.path.join(REPO, "include/sonic/internal/arch/x86_ifuncs/*.h"))):
    src = open(f).read(); m = _mask_noncode(src)
    for mo in re.finditer(r"__attribute__\(\(target\((SONIC_WESTMERE|SONIC_HASWELL)\)\)\)", m):
        ns = "sse" if mo.group(1) == "SONIC_WESTMERE" else "avx2"
        op = m.index("(", mo.end()); cp = _scan(m, op, "(", ")")
        head = m[mo.end():op]; name = re.findall(r"(\w+)\s*$", head)[0]
        params = [re.findall(r"(\w+)\s*$", p.strip())[0] for p in src[op + 1:cp].split(",") if p.strip()]
        ob = m.index("{", cp); cb = _scan(m, ob, "{", "}")
        body = " ".join(m[ob + 1:cb].split())
        want = "return %s::%s(%s);" % (ns, name, ", ".join(params))
        n += 1
        alt = re.sub(r"::(\w+)_(\d+)\(", r"::\1<\2>(", want)      # Xmemcpy_32 forwards to the template instance Xmemcpy<32>
        if body.replace(" ", "") not in (want.replace(" ", ""), alt.replace(" ", "")):
            bad.append((os.path.basename(f), src.count("\n", 0, mo.start()) + 1, name, mo.group(1), body, want))
print("STAT wrappers_checked=%d" % n)
for b in bad:
    print("FAIL %s:%d %s [%s] body `%s` is not the pure forwarder `%s`" % b)
sys.exit(2 if n == 0 else 1 if bad else 0)
