// validate_models.cpp — compare every intrinsic model of models/intrin.h (and the wrapper idioms of models/simdwrap.h
// for both vector widths' building blocks) with the real instruction on this CPU: random and edge-case vectors.
// Supporting step (sample-based): a mismatch is a tool-side error (exit 2-class), never a property violation.
//   argv[1] = number of random vectors per intrinsic, argv[2] = seed
#include <immintrin.h>
#include <cstdint>
#include <cstdio>
#include <cstdlib>
#include <cstring>
extern "C++" {
#include "intrin.h"       // models, named mdl_<intrinsic> in this native build
}
static uint64_t rng_s;
static uint64_t rnd() { rng_s ^= rng_s << 13; rng_s ^= rng_s >> 7; rng_s ^= rng_s << 17; return rng_s; }
static const uint8_t EDGE[] = {0x00, 0x01, 0x0f, 0x10, 0x1f, 0x20, 0x22, 0x5c, 0x7f, 0x80, 0x81, 0xfe, 0xff};
static void fill(uint8_t *p, size_t n, long it) {
  for (size_t i = 0; i < n; i++) p[i] = (it % 3 == 0) ? EDGE[rnd() % sizeof EDGE] : (uint8_t)rnd();
}
static int fails = 0; static long checks = 0;
#define CMP(name, real, model, n) do { checks++; if (memcmp(&(real), &(model), n) != 0) { if (fails++ < 5) printf("MISMATCH %s\n", name); } } while (0)
int main(int argc, char **argv) {
  long N = argc > 1 ? atol(argv[1]) : 100000; rng_s = (argc > 2 ? strtoull(argv[2], 0, 10) : 1) * 0x9E3779B97F4A7C15ull + 1;
  if (N <= 0) N = 100000;
  for (long it = 0; it < N; it++) {
    m128 a, b; m256 A, B; fill(a.b, 16, it); fill(b.b, 16, it + 1); fill(A.b, 32, it); fill(B.b, 32, it + 1);
    __m128i ra, rb; __m256i RA, RB; memcpy(&ra, &a, 16); memcpy(&rb, &b, 16); memcpy(&RA, &A, 32); memcpy(&RB, &B, 32);
#define T128(fn) do { __m128i r = fn(ra, rb); m128 m = mdl_##fn(a, b); CMP(#fn, r, m, 16); } while (0)
#define T256(fn) do { __m256i r = fn(RA, RB); m256 m = mdl_##fn(A, B); CMP(#fn, r, m, 32); } while (0)
    T128(_mm_cmpeq_epi8); T128(_mm_cmpgt_epi8); T128(_mm_cmplt_epi8); T128(_mm_and_si128); T128(_mm_or_si128); T128(_mm_max_epu8);
    T128(_mm_subs_epu8); T128(_mm_shuffle_epi8); T128(_mm_add_epi8); T128(_mm_packus_epi16);
    T256(_mm256_cmpeq_epi8); T256(_mm256_cmpgt_epi8); T256(_mm256_and_si256); T256(_mm256_or_si256); T256(_mm256_max_epu8);
    T256(_mm256_subs_epu8); T256(_mm256_shuffle_epi8);
    { int r = _mm_movemask_epi8(ra), m = mdl__mm_movemask_epi8(a); CMP("_mm_movemask_epi8", r, m, 4); }
    { int r = _mm256_movemask_epi8(RA), m = mdl__mm256_movemask_epi8(A); CMP("_mm256_movemask_epi8", r, m, 4); }
    { char c = (char)rnd(); __m128i r = _mm_set1_epi8(c); m128 m = mdl__mm_set1_epi8(c); CMP("_mm_set1_epi8", r, m, 16);
      __m256i R = _mm256_set1_epi8(c); m256 M = mdl__mm256_set1_epi8(c); CMP("_mm256_set1_epi8", R, M, 32); }
    { long long hi = (long long)rnd(), lo = (long long)rnd(); __m128i r = _mm_set_epi64x(hi, lo); m128 m = mdl__mm_set_epi64x(hi, lo); CMP("_mm_set_epi64x", r, m, 16);
      long long x = _mm_cvtsi128_si64(r), y = mdl__mm_cvtsi128_si64(m); CMP("_mm_cvtsi128_si64", x, y, 8); }
    { __m128i r = _mm_setr_epi8((char)a.b[0], (char)a.b[1], (char)a.b[2], (char)a.b[3], (char)a.b[4], (char)a.b[5], (char)a.b[6], (char)a.b[7], (char)a.b[8], (char)a.b[9], (char)a.b[10], (char)a.b[11], (char)a.b[12], (char)a.b[13], (char)a.b[14], (char)a.b[15]);
      m128 m = mdl__mm_setr_epi8((char)a.b[0], (char)a.b[1], (char)a.b[2], (char)a.b[3], (char)a.b[4], (char)a.b[5], (char)a.b[6], (char)a.b[7], (char)a.b[8], (char)a.b[9], (char)a.b[10], (char)a.b[11], (char)a.b[12], (char)a.b[13], (char)a.b[14], (char)a.b[15]);
      CMP("_mm_setr_epi8", r, m, 16); }
    { __m128i r0 = _mm_clmulepi64_si128(ra, rb, 0), r1 = _mm_clmulepi64_si128(ra, rb, 0x11), r2 = _mm_clmulepi64_si128(ra, rb, 0x01);
      m128 m0 = mdl__mm_clmulepi64_si128(a, b, 0), m1 = mdl__mm_clmulepi64_si128(a, b, 0x11), m2 = mdl__mm_clmulepi64_si128(a, b, 0x01);
      CMP("_mm_clmulepi64_si128/00", r0, m0, 16); CMP("_mm_clmulepi64_si128/11", r1, m1, 16); CMP("_mm_clmulepi64_si128/01", r2, m2, 16); }
    { unsigned x = (unsigned)rnd(), i = (unsigned)(rnd() % 70); unsigned r = _bzhi_u32(x, i), m = mdl__bzhi_u32(x, i); CMP("_bzhi_u32", r, m, 4); }
    { uint8_t buf[64], out1[32], out2[32]; fill(buf, 64, it); __m256i r = _mm256_loadu_si256((const __m256i *)(buf + 3)); m256 m = mdl__mm256_loadu_si256((const m256 *)(buf + 3)); CMP("_mm256_loadu_si256", r, m, 32);
      _mm256_storeu_si256((__m256i *)out1, r); mdl__mm256_storeu_si256((m256 *)out2, m); CMP("_mm256_storeu_si256", out1, out2, 32);
      __m128i r8 = _mm_loadu_si128((const __m128i *)(buf + 5)); m128 m8 = mdl__mm_loadu_si128((const m128 *)(buf + 5)); CMP("_mm_loadu_si128", r8, m8, 16);
      _mm_storeu_si128((__m128i *)out1, r8); mdl__mm_storeu_si128((m128 *)out2, m8); CMP("_mm_storeu_si128", out1, out2, 16); }
    { __m128i r = _mm_setzero_si128(); m128 m = mdl__mm_setzero_si128(); CMP("_mm_setzero_si128", r, m, 16); }
  }
  printf("STAT model_comparisons=%ld\nSTAT vectors_per_intrinsic=%ld\n", checks, N);
  if (fails) { printf("model mismatches: %d\n", fails); return 3; }
  printf("all intrinsic models agree with the CPU on the sampled vectors\n");
  return 0;
}
