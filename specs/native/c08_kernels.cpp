// C08 — exhaustive enumeration of the 8-digit kernels of the REAL compiled code (all 10^8 inputs each).
// Complete for that finite domain; reported as "exhaustive", not as a deductive proof.
//   argv[1]: ignored sample count, argv[2]: seed (unused: the enumeration is complete)
#include <cstdint>
#include <cstdio>
#include <cstring>
#include "sonic/internal/itoa.h"
using namespace sonic_json::internal;

static int fails = 0;
static void fail(const char *what, uint64_t v, const char *got, int n) {
  if (fails++ < 5) printf("FAIL %s val=%llu got=%.*s\n", what, (unsigned long long)v, n, got);
}
int main() {
  // canonical spelling by an independent odometer (no division): digits[] holds the current value zero-padded to 8
  char dig[9] = "00000000";
  int nd = 1;  // number of significant digits of the current value
  unsigned long long checked = 0;
  for (uint32_t v = 0; v < 100000000u; v++) {
    // --- Utoa_1_8: canonical decimal without leading zeros, returns out + ndigits, may touch at most out[-1..8]
    char buf[32]; memset(buf, 0x55, sizeof buf);
    char *out = buf + 8;
    char *e = Utoa_1_8(out, v);
    if (e - out != nd || memcmp(out, dig + 8 - nd, nd) != 0) fail("Utoa_1_8", v, out, (int)(e - out));
    for (int i = 0; i < 8; i++) if (buf[i] != 0x55 && i != 7) fail("Utoa_1_8 wrote before out-1", v, out, 0);
    for (int i = 16; i < 32; i++) if (buf[i] != 0x55) fail("Utoa_1_8 wrote past out+8", v, out, 0);
    // --- Utoa_8: exactly 8 zero-padded digits; the store is 16 bytes wide (extent out[0..16))
    char b2[40]; memset(b2, 0x55, sizeof b2);
    char *e2 = Utoa_8(v, b2 + 8);
    if (e2 != b2 + 16 || memcmp(b2 + 8, dig, 8) != 0) fail("Utoa_8", v, b2 + 8, 8);
    for (int i = 0; i < 8; i++) if (b2[i] != 0x55) fail("Utoa_8 wrote before out", v, b2 + 8, 0);
    for (int i = 24; i < 40; i++) if (b2[i] != 0x55) fail("Utoa_8 wrote past out+16", v, b2 + 8, 0);
    // --- UtoaSSE: the eight 16-bit lanes are the eight digits (this is what Utoa_16 packs twice)
    __m128i d = x86_common::UtoaSSE(v);
    uint16_t lanes[8]; memcpy(lanes, &d, 16);
    for (int i = 0; i < 8; i++) if (lanes[i] != (uint16_t)(dig[i] - '0')) { fail("UtoaSSE lane", v, dig, 8); break; }
    checked++;
    // odometer increment
    int i = 7;
    while (i >= 0 && dig[i] == '9') dig[i--] = '0';
    if (i >= 0) { dig[i]++; if (8 - i > nd) nd = 8 - i; }
  }
  printf("STAT values_enumerated=%llu\nSTAT kernels=Utoa_1_8,Utoa_8,UtoaSSE\n", checked);
  if (fails) { printf("FAIL total=%d\n", fails); return 1; }
  printf("all 10^8 values: Utoa_1_8 canonical, Utoa_8 zero-padded, UtoaSSE lanes are the digits\n");
  return 0;
}
