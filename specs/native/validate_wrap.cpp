// validate_wrap.cpp — compare the wrapper-idiom models of models/simdwrap.h with the REAL classes of sonic's simd.h
// (simd256<uint8_t> for -DVEC_LEN=32, simd128<uint8_t> for -DVEC_LEN=16, and simd8x64<uint8_t>) on sampled vectors.
#include <immintrin.h>
#include <cstdint>
#include <cstdio>
#include <cstdlib>
#include <cstring>
#if VEC_LEN == 32
#include "sonic/internal/arch/avx2/simd.h"
namespace S = sonic_json::internal::avx2::simd;
typedef S::simd256<uint8_t> RealVec;
#else
#include "sonic/internal/arch/sse/simd.h"
namespace S = sonic_json::internal::simd;
typedef S::simd128<uint8_t> RealVec;
#endif
extern "C++" {
#include "simdwrap.h"
}
static uint64_t rng_s;
static uint64_t rnd() { rng_s ^= rng_s << 13; rng_s ^= rng_s >> 7; rng_s ^= rng_s << 17; return rng_s; }
static const uint8_t EDGE[] = {0x00, 0x01, 0x1f, 0x20, 0x22, 0x5c, 0x7f, 0x80, 0xff, '[', ']', '{', '}', ',', ':', ' ', '\t', '\n', '\r'};
int main(int argc, char **argv) {
  long N = argc > 1 ? atol(argv[1]) : 100000; if (N <= 0) N = 100000;
  rng_s = (argc > 2 ? strtoull(argv[2], 0, 10) : 1) * 0x9E3779B97F4A7C15ull + 7;
  long checks = 0; int fails = 0;
  for (long it = 0; it < N; it++) {
    uint8_t buf[64]; for (int i = 0; i < 64; i++) buf[i] = (it % 2) ? EDGE[rnd() % sizeof EDGE] : (uint8_t)rnd();
    uint8_t c = (it % 3) ? EDGE[rnd() % sizeof EDGE] : (uint8_t)rnd();
    RealVec rv(buf); VecType mv = VEC_LOAD(buf);
    uint64_t r1 = (rv == c).to_bitmask(), m1 = VEC_TO_BITMASK(VEC_EQ(mv, c));
    uint64_t r2 = (rv <= c).to_bitmask(), m2 = VEC_TO_BITMASK(VEC_LE(mv, c));
    uint64_t r3 = (rv < c).to_bitmask(), m3 = VEC_TO_BITMASK(VEC_LT(mv, c));
    uint64_t r4 = ((rv == c) | (rv < (uint8_t)0x20)).to_bitmask(), m4 = VEC_TO_BITMASK(VEC_OR(VEC_EQ(mv, c), VEC_LT(mv, 0x20)));
    uint8_t o1[VEC_LEN], o2[VEC_LEN]; rv.store(o1); VEC_STORE(mv, o2);
    S::simd8x64<uint8_t> r64(buf); simd8x64_u8 m64 = simd8x64_load(buf);
    uint64_t r5 = r64.eq(c), m5 = simd8x64_eq(m64, c);
    checks += 6;
    if (r1 != m1 || r2 != m2 || r3 != m3 || r4 != m4 || r5 != m5 || memcmp(o1, o2, VEC_LEN) != 0) { if (fails++ < 5) printf("MISMATCH at sample %ld (c=%02x)\n", it, c); }
  }
  printf("STAT wrapper_comparisons=%ld\nSTAT vec_len=%d\n", checks, VEC_LEN);
  if (fails) { printf("wrapper model mismatches: %d\n", fails); return 3; }
  printf("wrapper idiom models agree with the real simd.h classes on the sampled vectors\n");
  return 0;
}
