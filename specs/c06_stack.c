/* C06 (growth contracts): internal::Stack — the write buffer every serializer emitter writes through. */
#include "prelude.h"
#define STACK_MAX ((size_t)1 << 40)      /* stated bound on capacities and request sizes (2*cap_, cap_ + cap_/2 do not wrap) */
#include "gen/SONIC_ALIGN.inc"
typedef struct Stack {
#include "gen/Stack.fields.inc"
} Stack;
/* representation invariant: either the moved-from / never-allocated state (all null, capacity 0), or buf_ is a heap block of
 * SONIC_ALIGN(cap_) bytes and top_ points into it with Size() <= cap_ */
#define STACK_WF(s) STACK_WFM(s, STACK_MAX)
#define STACK_WF_IN(s) (STACK_WFM(s, STACK_MAX / 4) && ((s)->buf_ == NULL || __CPROVER_is_freeable((s)->buf_)))   /* entry states: room for one doubling */
#define STACK_WFM(s, mx) (__CPROVER_rw_ok((s), sizeof(Stack)) && (s)->cap_ <= (mx) && \
  (((s)->buf_ == NULL && (s)->top_ == NULL && (s)->cap_ == 0) || \
   ((s)->buf_ != NULL && __CPROVER_POINTER_OFFSET((s)->buf_) == 0 && __CPROVER_OBJECT_SIZE((s)->buf_) == SONIC_ALIGN((s)->cap_) && \
    __CPROVER_rw_ok((s)->buf_, SONIC_ALIGN((s)->cap_)) && __CPROVER_same_object((s)->top_, (s)->buf_) && \
    __CPROVER_POINTER_OFFSET((s)->top_) <= (s)->cap_ && !__CPROVER_same_object((s)->buf_, (s)))))
/* ghost index instead of a quantifier: byte ghost_k of the contents (if below Size()) has value ghost_v */
size_t ghost_k; char ghost_v;
#define GHOST_BYTE_OF(s) ((s)->buf_ == NULL || ghost_k >= __CPROVER_POINTER_OFFSET((s)->top_) || (s)->buf_[ghost_k] == ghost_v)

#include "gen/Stack.Size.inc"
#include "gen/Stack.Capacity.inc"
#include "gen/Stack.Clear.inc"
#include "gen/Stack.setZero.inc"
#include "gen/Stack.Reserve.inc"
#include "gen/Stack.Grow.inc"
#include "gen/Stack.PushUnsafe_char.inc"
#include "gen/Stack.PushSizeUnsafe_char.inc"
#include "gen/Stack.Push_char.inc"
#include "gen/Stack.PushSize_char.inc"
#include "gen/Stack.Pop_char.inc"
#include "gen/Stack.End_char.inc"
#include "gen/Stack.Begin_char.inc"
#include "gen/Stack.Push_str.inc"
#include "gen/Stack.PushUnsafe_str.inc"
#include "gen/Stack.Push5_8.inc"

size_t in_cap, in_size, in_n; _Bool in_null;
_Bool nondet_bool(void);
/* an arbitrary well-formed buffer: fresh, reused after Clear, capacity 0 / moved-from, partly filled */
#ifndef NULL_STATE
#define NULL_STATE 0      /* -DNULL_STATE=1: the moved-from / never-allocated buffer (all null, capacity 0) */
#endif
#define MAKE_STACK()                                                                   \
  Stack S;                                                                             \
  if (NULL_STATE) { S.buf_ = NULL; S.top_ = NULL; S.cap_ = 0; in_null = 1; }           \
  else {                                                                               \
    size_t cap, size; __CPROVER_assume(cap <= STACK_MAX / 4 && size <= cap);           \
    S.buf_ = malloc(SONIC_ALIGN(cap)); __CPROVER_assume(S.buf_ != NULL);               \
    S.top_ = S.buf_ + size; S.cap_ = cap; in_cap = cap; in_size = size;                \
  }                                                                                    \
  if (S.buf_ != NULL && ghost_k < (size_t)(S.top_ - S.buf_)) ghost_v = S.buf_[ghost_k];

void h_Reserve(void) { MAKE_STACK(); size_t n; in_n = n; __CPROVER_assume(n >= 1); Stack_Reserve(&S, n); CANARY(); }
void h_Grow(void) { MAKE_STACK(); size_t n; in_n = n; (void)Stack_Grow(&S, n); CANARY(); }

/* emitters built on Grow (real Grow and Reserve bodies; CBMC cannot assume a contract that returns a re-allocated block) */
void h_pushers(void) {
  MAKE_STACK();
  size_t size0 = S.buf_ ? (size_t)(S.top_ - S.buf_) : 0;
  int which; size_t n; __CPROVER_assume(n <= 4096); in_n = n;
  char *src = malloc(n > 8 ? n : 8); __CPROVER_assume(src != NULL);
  if (which == 0) { char c; Stack_Push_char(&S, c); VASSERT((size_t)(S.top_ - S.buf_) == size0 + 1 && S.top_[-1] == c, "C06.push.char: Push<char> appends one byte"); }
  else if (which == 1) { Stack_Push_str(&S, src, n); VASSERT((size_t)(S.top_ - S.buf_) == size0 + n, "C06.push.str: Push(s, n) appends n bytes");
                         VASSERT((size_t)(S.top_ - S.buf_) < S.cap_, "C06.push.str.room: and leaves room for a terminator"); }
  else if (which == 2) { size_t k; __CPROVER_assume(5 <= k && k <= 8); Stack_Push5_8(&S, src, k); VASSERT((size_t)(S.top_ - S.buf_) == size0 + k, "C06.push.5_8: Push5_8 appends k bytes after reserving 8"); }
  else if (which == 3) { char *r = Stack_PushSize_char(&S, n); VASSERT(r == S.top_ - n && (size_t)(S.top_ - S.buf_) == size0 + n, "C06.push.size: PushSize<char>(n) reserves and skips n bytes"); }
  else {
    /* the serializer's idiom: Grow(k) once, then unchecked pushes totalling at most k bytes */
    size_t k; __CPROVER_assume(2 <= k && k <= 4096);
    (void)Stack_Grow(&S, k);
    size_t a; __CPROVER_assume(a <= k - 1);
    (void)Stack_PushSizeUnsafe_char(&S, a);
    char c; Stack_PushUnsafe_char(&S, c);
    VASSERT((size_t)(S.top_ - S.buf_) == size0 + a + 1 && (size_t)(S.top_ - S.buf_) <= S.cap_, "C06.push.unsafe: unchecked pushes after Grow(k) stay inside the capacity");
  }
  VASSERT(STACK_WF(&S), "C06.push.wf: the buffer stays well-formed");
  VASSERT(GHOST_BYTE_OF(&S) || ghost_k >= size0, "C06.push.keep: earlier contents are preserved");
  CANARY();
}

/* ---- WriteBuffer::ToString: Grow(1), then the terminator is written at End() — inside the allocation, contents kept ---- */
typedef struct WriteBuffer { Stack stack_; } WriteBuffer;
#undef Grow
#undef Size
#undef Capacity
#undef Reserve
#include "gen/WriteBuffer.ToString.inc"
void h_ToString(void) {
  MAKE_STACK();
  WriteBuffer W; W.stack_ = S;
  size_t size0 = S.buf_ ? (size_t)(S.top_ - S.buf_) : 0;
  const char *p = WriteBuffer_ToString(&W);
  VASSERT(p == W.stack_.buf_ && p != NULL, "C06.tostring.begin: ToString returns the beginning of the buffer");
  VASSERT((size_t)(W.stack_.top_ - W.stack_.buf_) == size0 && p[size0] == 0, "C06.tostring.term: the terminator is written right behind the contents, which keep their length");
  VASSERT(size0 < W.stack_.cap_, "C06.tostring.room: and it lies inside the capacity");
  VASSERT(GHOST_BYTE_OF(&W.stack_) || ghost_k >= size0, "C06.tostring.keep: the contents are preserved");
  CANARY();
}
