/* C11: GetNonSpaceBits (both arch bodies) and skip_space_safe under contract. */
#include "arch.h"
#include "ghost.h"
#include "gen/IsSpace.inc"

/* ---- contract of the 64-byte whitespace classifier (enforced in job *.GetNonSpaceBits,
 *      used by replacement inside skip_space_safe) ---- */
uint64_t GetNonSpaceBits(const uint8_t *data)
__CPROVER_requires(__CPROVER_r_ok(data, 64))
__CPROVER_requires(!GHOST_IN64(ghost_pk, data) || data[GHOST_OFF(ghost_pk, data)] == ghost_vk)
__CPROVER_requires(!GHOST_IN64(ghost_pj, data) || data[GHOST_OFF(ghost_pj, data)] == ghost_vj)
__CPROVER_assigns()
__CPROVER_ensures(!GHOST_IN64(ghost_pk, data) || BIT(__CPROVER_return_value, GHOST_OFF(ghost_pk, data)) == !SPEC_IS_SPACE(ghost_vk))
__CPROVER_ensures(!GHOST_IN64(ghost_pj, data) || BIT(__CPROVER_return_value, GHOST_OFF(ghost_pj, data)) == !SPEC_IS_SPACE(ghost_vj))
;
#if VEC_LEN == 32
#include "gen/avx2.GetNonSpaceBits.inc"
#else
#include "gen/sse.GetNonSpaceBits.inc"
#endif

/* cached-bitmap well-formedness (derived from the code: the cache describes the 64-byte block
 * ending at nonspace_bits_end, which was fully inside the input when it was computed) */
#define WF_CACHE(pos, len, end) ((end) == 0 || ((end) >= 64 && (end) <= (len) && (pos) + 64 > (end)))
#define CACHE_AGREES_AT(end, bits, g, gv) \
  (!((end) != 0 && (g) >= (end) - 64 && (g) < (end)) || (BIT(bits, (g) - ((end) - 64)) == !SPEC_IS_SPACE(gv)))

#include "gen/skip_space_safe.inc"

uint8_t in_buf[64]; size_t in_k;
void h_GetNonSpaceBits(void) {
  __CPROVER_havoc_object(in_buf);
  size_t k, j; __CPROVER_assume(k < 64 && j < 64);
  in_k = k;
  uint8_t *buf = malloc(64); __CPROVER_assume(buf != NULL);   /* exactly 64 bytes: read extent */
  for (int i = 0; i < 64; i++) buf[i] = in_buf[i];
  ghost_pk = buf + k; ghost_pj = buf + j; ghost_vk = buf[k]; ghost_vj = buf[j];
  uint64_t r = GetNonSpaceBits(buf);
  VASSERT(BIT(r, k) == !SPEC_IS_SPACE(buf[k]), "C11.nonspace.bits: bit i of the classifier is set iff byte i is not RFC 8259 whitespace");
  CANARY();
}

void h_skip_space_safe(void) {
  size_t len, pos, end; uint64_t bits; uint8_t *data;
  (void)skip_space_safe(data, pos, len, end, bits);   /* DFCC allocates the arguments from the requires clauses */
  CANARY();
}
