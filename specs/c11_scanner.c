/* C11: SkipScanner members (SkipSpaceSafe, GetArrayElem, SkipOne) and the SkipArray/SkipObject/
 * SkipNumber forwarders, checked against the CONTRACTS of the leaf scanners (modular: the leaf
 * bodies are verified in c11_space.c / c11_skip.c and replaced here). */
#include "arch.h"
#include "ghost.h"
#include "gen/IsSpace.inc"
#include "gen/GetEscaped_16.inc"
#include "gen/GetEscaped_32.inc"
#include "gen/GetEscaped_64.inc"
#define SPEC_IS_TOKEN(c, tokens, N) ((c) == (uint8_t)(tokens)[0] || (c) == (uint8_t)(tokens)[1] || ((N) > 3 && (c) == (uint8_t)(tokens)[2]))
#define WF_CACHE(pos, len, end) ((end) == 0 || ((end) >= 64 && (end) <= (len) && (pos) + 64 > (end)))
#define CACHE_AGREES_AT(end, bits, g, gv) \
  (!((end) != 0 && (g) >= (end) - 64 && (g) < (end)) || (BIT(bits, (g) - ((end) - 64)) == !SPEC_IS_SPACE(gv)))

typedef struct SkipScanner {
#include "gen/SkipScanner.fields.inc"
} SkipScanner;
/* scanner representation invariant, relative to the current position */
#define WF_SCANNER_V(end, bits, pos, len) (WF_CACHE(pos, len, end) && \
   CACHE_AGREES_AT(end, bits, ghost_k, ghost_vk) && CACHE_AGREES_AT(end, bits, ghost_j, ghost_vj))

uint64_t GetNonSpaceBits(const uint8_t *data);
uint64_t GetStringBits(const uint8_t *data, uint64_t *prev_instring__r, uint64_t *prev_escaped__r);
#define GetStringBits(d, pi, pe) (GetStringBits)(d, &(pi), &(pe))

/* callee contracts (+ bodies, unused here: every call below is replaced by the contract) */
#include "gen/skip_space_safe.inc"
#include "gen/GetNextToken_3.inc"
#include "gen/GetNextToken_4.inc"
#define GetNextToken(d, p, l, t) (sizeof(t) == 4 ? (GetNextToken_4)(d, &(p), l, t) : (GetNextToken_3)(d, &(p), l, t))
#include "gen/SkipString.inc"
#include "gen/SkipContainer.inc"
#include "gen/EqBytes4.inc"
#include "gen/SkipLiteral.inc"

#include "gen/SkipArray.inc"
#include "gen/SkipObject.inc"
#include "gen/SkipNumber.inc"
#include "gen/SkipScanner.SkipSpaceSafe.inc"
#include "gen/SkipScanner.GetArrayElem.inc"
#include "gen/SkipScanner.SkipOne.inc"

void h_GetArrayElem(void) {
  uint8_t *data; size_t pos, len; int index; SkipScanner sc;
  SkipScanner *self = &sc;
  (void)GetArrayElem(data, pos, len, index);
  CANARY();
}
void h_SkipOne(void) {
  uint8_t *data; size_t pos, len; SkipScanner sc;
  SkipScanner *self = &sc;
  (void)SkipOne(data, pos, len);
  CANARY();
}
