/* C14: key comparison kernels of avx2/base.h (production path unless -DSONIC_USE_SANITIZE) and the sse forwarders. */
#include "arch.h"
#ifdef SANITIZE_PATH
#define SONIC_USE_SANITIZE
#endif

/* ---- memory model: every operand lives in an object made of whole 4096-byte pages; the logical range
 *      [p, p+s) ends anywhere up to the object's last byte. CBMC's pointer-to-integer conversion keeps the
 *      offset in the low bits, so (size_t)p % 4096 == offset % 4096 (objects are page aligned) and any read
 *      beyond the object is a read into the next, possibly unmapped, page. ---- */
#define PAGE_RANGE(p, s) (__CPROVER_r_ok((p), (s)) && (__CPROVER_OBJECT_SIZE(p) & 4095) == 0 && \
                          __CPROVER_POINTER_OFFSET(p) + (s) <= __CPROVER_OBJECT_SIZE(p))
size_t ghost_k, ghost_m, ghost_f;
_Bool ghost_equal;              /* the harness built the second range as a copy of the first */
#define RANGES_EQUAL_BY_CONSTRUCTION (1)   /* marker: established by __CPROVER_array_copy in the harness, not by a formula */
uint8_t ghost_ak, ghost_bk, ghost_am, ghost_bm;
#define MEM_GHOSTS(a, b, s) ((ghost_k >= (s) || (ghost_ak == ((const uint8_t *)(a))[ghost_k] && ghost_bk == ((const uint8_t *)(b))[ghost_k])) && \
                             (ghost_m >= (s) || (ghost_am == ((const uint8_t *)(a))[ghost_m] && ghost_bm == ((const uint8_t *)(b))[ghost_m])))
/* stated by construction in the harness (see h_InlinedMemcmp); as a contract clause it is only a marker */
#define PREFIX_EQUAL(a, b, f) (1)

#if VEC_LEN == 32
#include "gen/in_page_32.inc"
#include "gen/is_eq_lt_32_cross_page.inc"
/* contracts of the short-key kernels, proved complete in h_is_eq_lt_32 / h_cmp_lt_32 and used by replacement below */
#ifdef SHORT_DISPATCH
bool __CPROVER_uninterpreted_eq(const void *, const void *, size_t);
int __CPROVER_uninterpreted_cmp(const void *, const void *, size_t);
bool is_eq_lt_32(const void *_a, const void *_b, size_t s)
__CPROVER_requires(1 <= s && s < 32 && PAGE_RANGE(_a, s) && PAGE_RANGE(_b, s))
__CPROVER_assigns()
__CPROVER_ensures(__CPROVER_return_value == __CPROVER_uninterpreted_eq(_a, _b, s))
;
int cmp_lt_32(const void *_l, const void *_r, size_t s)
__CPROVER_requires(1 <= s && s < 32 && PAGE_RANGE(_l, s) && PAGE_RANGE(_r, s))
__CPROVER_assigns()
__CPROVER_ensures(__CPROVER_return_value == __CPROVER_uninterpreted_cmp(_l, _r, s))
;
#else
bool is_eq_lt_32(const void *_a, const void *_b, size_t s)
__CPROVER_requires(1 <= s && s < 32 && PAGE_RANGE(_a, s) && PAGE_RANGE(_b, s) && MEM_GHOSTS(_a, _b, s))
__CPROVER_requires(!ghost_equal || RANGES_EQUAL_BY_CONSTRUCTION)
__CPROVER_assigns()
__CPROVER_ensures(!__CPROVER_return_value || !(ghost_k < s) || ghost_ak == ghost_bk)
__CPROVER_ensures(!ghost_equal || __CPROVER_return_value)
;
int cmp_lt_32(const void *_l, const void *_r, size_t s)
__CPROVER_requires(1 <= s && s < 32 && PAGE_RANGE(_l, s) && PAGE_RANGE(_r, s) && MEM_GHOSTS(_l, _r, s))
__CPROVER_requires(!ghost_equal || RANGES_EQUAL_BY_CONSTRUCTION)
__CPROVER_assigns()
__CPROVER_ensures(__CPROVER_return_value != 0 || !(ghost_k < s) || ghost_ak == ghost_bk)
__CPROVER_ensures(!ghost_equal || __CPROVER_return_value == 0)
;
#endif
#include "gen/is_eq_lt_32.inc"
#include "gen/cmp_lt_32.inc"
#include "gen/avx2.InlinedMemcmpEq.inc"
#include "gen/avx2.InlinedMemcmp.inc"
#else
/* sse bodies forward to libc memcmp: libc is trusted, modelled as an uninterpreted function of (a, b, n) */
int __CPROVER_uninterpreted_memcmp(const void *, const void *, size_t);
int memcmp(const void *a, const void *b, size_t n)
__CPROVER_requires(__CPROVER_r_ok(a, n) && __CPROVER_r_ok(b, n))
__CPROVER_assigns()
__CPROVER_ensures(__CPROVER_return_value == __CPROVER_uninterpreted_memcmp(a, b, n))
;
#include "gen/sse.InlinedMemcmpEq.inc"
#include "gen/sse.InlinedMemcmp.inc"
void h_sse_forwarders(void) {
  size_t s; __CPROVER_assume(s <= MAXLEN);
  uint8_t *A = malloc(s), *B = malloc(s); __CPROVER_assume(A != NULL && B != NULL);   /* exact-size blocks */
  bool e = InlinedMemcmpEq(A, B, s);
  int c = InlinedMemcmp(A, B, s);
  VASSERT(e == (__CPROVER_uninterpreted_memcmp(A, B, s) == 0), "C14.sse.eq: the sse equality test is memcmp(a, b, s) == 0 on exactly s bytes");
  VASSERT(c == __CPROVER_uninterpreted_memcmp(A, B, s), "C14.sse.cmp: the sse three-way comparison is memcmp(l, r, s)");
  CANARY();
}
#endif

size_t in_s, in_oa, in_ob, in_f; uint8_t in_a[32], in_b[32];

/* two page objects with symbolic offsets; returns pointers a,b with [a,a+s) and [b,b+s) inside */
#define PAGES 2
#define SETUP_PAGES(s)                                                        \
  uint8_t *A = malloc(4096 * PAGES), *B = malloc(4096 * PAGES);               \
  __CPROVER_assume(A != NULL && B != NULL);                                   \
  size_t oa, ob;                                                              \
  __CPROVER_assume(oa <= 4096 * PAGES - (s) && ob <= 4096 * PAGES - (s));    \
  in_oa = oa; in_ob = ob; in_s = (s);                                         \
  const uint8_t *a = A + oa, *b = B + ob;

#if VEC_LEN == 32
void h_in_page_32(void) {
  size_t s = 1; SETUP_PAGES(s);      /* only called with at least one byte at each pointer */
  bool r = in_page_32(a, b);
#ifdef SANITIZE_PATH
  VASSERT(!r, "C14.inpage.sanitize: the sanitizer build never takes the over-reading path");
#else
  VASSERT(!r || (oa + 32 <= 4096 * PAGES && ob + 32 <= 4096 * PAGES), "C14.inpage.safe: guard true => 32 bytes readable at both pointers");
  VASSERT(!r || ((oa & 4095) <= 4064 && (ob & 4095) <= 4064), "C14.inpage.page: guard true => neither 32-byte window crosses a page");
  VASSERT(r || (oa & 4095) > 4064 || (ob & 4095) > 4064 || ((oa | ob) & 4095) > 4064, "C14.inpage.sound: guard false only when the OR of the page offsets exceeds 4064");
#endif
  CANARY();
}

void h_is_eq_lt_32(void) {
  size_t s; __CPROVER_assume(1 <= s && s < 32);
  SETUP_PAGES(s);
  bool want = true;
  for (size_t i = 0; i < 31; i++) if (i < s) { in_a[i] = a[i]; in_b[i] = b[i]; }
  for (size_t i = 0; i < 31; i++) if (i < s && in_a[i] != in_b[i]) want = false;
  bool r = is_eq_lt_32(a, b, s);
  VASSERT(r == want, "C14.eq_lt_32: true iff the first s bytes agree (all s < 32, all contents, all page offsets)");
  CANARY();
}
void h_is_eq_lt_32_cross_page(void) {
  size_t s; __CPROVER_assume(1 <= s && s < 32);
  SETUP_PAGES(s);
  bool want = true;
  for (size_t i = 0; i < 31; i++) if (i < s) { in_a[i] = a[i]; in_b[i] = b[i]; }
  for (size_t i = 0; i < 31; i++) if (i < s && in_a[i] != in_b[i]) want = false;
  bool r = is_eq_lt_32_cross_page(a, b, (unsigned)s);
  VASSERT(r == want, "C14.eq_cross_page: fallback true iff the first s bytes agree; reads only [p, p+s)");
  CANARY();
}
void h_cmp_lt_32(void) {
  size_t s; __CPROVER_assume(1 <= s && s < 32);
  SETUP_PAGES(s);
  int want = 0;
  for (size_t i = 0; i < 31; i++) if (i < s) { in_a[i] = a[i]; in_b[i] = b[i]; }
  for (size_t i = 31; i-- > 0;) if (i < s && in_a[i] != in_b[i]) want = in_a[i] < in_b[i] ? -1 : 1;   /* first mismatch wins */
  int r = cmp_lt_32(a, b, s);
  VASSERT((r == 0) == (want == 0) && (r < 0) == (want < 0), "C14.cmp_lt_32: sign equals the sign of memcmp");
  CANARY();
}
#endif

/* unbounded part: s >= 32 symbolic, operands are heap blocks of EXACTLY s bytes (no over-read at all allowed);
 * short part: s < 32 on page objects, callee replaced by its contract */
#ifdef LONG_KEYS
#define SETUP_OPERANDS(s)                                                     \
  __CPROVER_assume((s) >= 32);                                                \
  uint8_t *A = malloc(s), *B = malloc(s);                                     \
  __CPROVER_assume(A != NULL && B != NULL);                                   \
  const uint8_t *a = A, *b = B; in_s = (s);
#endif

#define GHOST_SETUP(s)                                                        \
  if (ghost_equal) __CPROVER_array_copy(B, A);                                \
  if (ghost_k < (s)) { ghost_ak = a[ghost_k]; ghost_bk = b[ghost_k]; }        \
  if (ghost_m < (s)) { ghost_am = a[ghost_m]; ghost_bm = b[ghost_m]; }
#define SAME_OFFSET()
#ifdef LONG_KEYS
void h_InlinedMemcmpEq(void) {
  size_t s; __CPROVER_assume(s <= MAXLEN);
  SETUP_OPERANDS(s); SAME_OFFSET(); GHOST_SETUP(s);
  (void)InlinedMemcmpEq(a, b, s);
  CANARY();
}
void h_InlinedMemcmp(void) {
  size_t s; __CPROVER_assume(s <= MAXLEN);
  SETUP_OPERANDS(s);
  if (ghost_k < s) { ghost_ak = a[ghost_k]; ghost_bk = b[ghost_k]; }
  (void)InlinedMemcmp(a, b, s);
  CANARY();
}
#endif
/* short keys (s < 32, including 0) through the public entry points: the dispatch forwards to the short kernels
 * unchanged. The kernels are replaced by contracts "returns UF(a,b,s)" (uninterpreted, functionally consistent), so
 * the obligation is exactly: result == kernel(a,b,s) for 1 <= s < 32, and the s == 0 answers. Complete (loop-free). */
#ifdef SHORT_DISPATCH
bool __CPROVER_uninterpreted_eq(const void *, const void *, size_t);
int __CPROVER_uninterpreted_cmp(const void *, const void *, size_t);
void h_InlinedMemcmpEq_short(void) {
  size_t s; __CPROVER_assume(s < 32);
  SETUP_PAGES(s);
  bool r = InlinedMemcmpEq(a, b, s);
  VASSERT(s != 0 || r, "C14.memcmpeq.empty: empty keys are equal");
  VASSERT(s == 0 || r == __CPROVER_uninterpreted_eq(a, b, s), "C14.memcmpeq.short: keys shorter than a block are decided by is_eq_lt_32(a, b, s) unchanged");
  CANARY();
}
void h_InlinedMemcmp_short(void) {
  size_t s; __CPROVER_assume(s < 32);
  SETUP_PAGES(s);
  int r = InlinedMemcmp(a, b, s);
  VASSERT(s != 0 || r == 0, "C14.memcmp.empty: empty keys compare equal");
  VASSERT(s == 0 || r == __CPROVER_uninterpreted_cmp(a, b, s), "C14.memcmp.short: keys shorter than a block are ordered by cmp_lt_32(l, r, s) unchanged");
  CANARY();
}
#endif
/* bounded: exact sign of InlinedMemcmp for every s <= SMAX (all block counts up to 4 and every tail), exact-size heap blocks */
#ifndef SMAX
#define SMAX 159
#endif
uint8_t in_la[SMAX], in_lb[SMAX];
void h_InlinedMemcmp_sign(void) {
  size_t s; __CPROVER_assume(32 <= s && s <= SMAX);
  uint8_t *A = malloc(s), *B = malloc(s); __CPROVER_assume(A != NULL && B != NULL);
  int want = 0;
  for (size_t i = 0; i < SMAX; i++) if (i < s) { in_la[i] = A[i]; in_lb[i] = B[i]; }
  for (size_t i = SMAX; i-- > 0;) if (i < s && in_la[i] != in_lb[i]) want = in_la[i] < in_lb[i] ? -1 : 1;
  in_s = s;
  int r = InlinedMemcmp(A, B, s);
  VASSERT((r == 0) == (want == 0) && (r < 0) == (want < 0), "C14.memcmp.sign: result has the sign of memcmp (first differing byte)");
  CANARY();
}

/* bounded: exact result of InlinedMemcmpEq for every s <= SMAX (every block count up to 4 and every tail), exact-size heap blocks */
void h_InlinedMemcmpEq_exact(void) {
  size_t s; __CPROVER_assume(32 <= s && s <= SMAX);
  uint8_t *A = malloc(s), *B = malloc(s); __CPROVER_assume(A != NULL && B != NULL);
  bool want = true;
  for (size_t i = 0; i < SMAX; i++) if (i < s) { in_la[i] = A[i]; in_lb[i] = B[i]; }
  for (size_t i = 0; i < SMAX; i++) if (i < s && in_la[i] != in_lb[i]) want = false;
  in_s = s;
  bool r = InlinedMemcmpEq(A, B, s);
  VASSERT(r == want, "C14.memcmpeq.exact: true exactly when every one of the s bytes agrees");
  CANARY();
}

#ifdef UNIT_Less
/* ---- DNode::Less (the optional lookup map's comparator) against InlinedMemcmp's contract ---- */
typedef struct { const char *data_; size_t size_; } StringView;
typedef StringView MSType;
#define SPEC_MIN(a, b) ((a) < (b) ? (a) : (b))
/* InlinedMemcmp by contract (proved in the jobs above: its sign is the sign of memcmp over exactly s bytes): modelled as two
 * nondeterministic results for the two argument orders, tied together by what "sign of memcmp" implies */
int less_c12, less_c21; const void *less_a; size_t less_len;
int nondet_int(void);
static inline int less_memcmp(const void *l, const void *r, size_t s) {
  __CPROVER_assert(__CPROVER_r_ok(l, s) && __CPROVER_r_ok(r, s), "C14.less.extent: the comparator compares exactly min(n1, n2) bytes of both keys");
  less_len = s;
  return l == less_a ? less_c12 : less_c21;
}
#define InlinedMemcmp less_memcmp
#include "gen/DNode.Less.inc"
#undef InlinedMemcmp
size_t in_n1, in_n2;
void h_Less(void) {
  size_t n1, n2; __CPROVER_assume(n1 <= 64 && n2 <= 64); in_n1 = n1; in_n2 = n2;
  char *a = malloc(n1), *b = malloc(n2); __CPROVER_assume(a != NULL && b != NULL && a != b);     /* exact-size keys */
  StringView s1, s2; s1.data_ = a; s1.size_ = n1; s2.data_ = b; s2.size_ = n2;
  less_a = a; less_c12 = nondet_int(); less_c21 = nondet_int();
  __CPROVER_assume((less_c12 == 0) == (less_c21 == 0) && (less_c12 < 0) == (less_c21 > 0));      /* memcmp(a,b,n) and memcmp(b,a,n) have opposite signs */
  bool ab = DNode_Less(s1, s2), ba = DNode_Less(s2, s1);
  bool prefix_equal = less_c12 == 0;
  VASSERT(!(ab && ba), "C14.less.asym: the comparator is asymmetric");
  VASSERT((!ab && !ba) == (prefix_equal && n1 == n2), "C14.less.equiv: two keys are equivalent in the lookup map exactly when they have the same length and the same bytes, so map-based and linear lookup agree");
  VASSERT(!(prefix_equal && n1 < n2) || ab, "C14.less.prefix: a proper prefix orders before its extension");
  CANARY();
}
#endif

#ifdef UNIT_FindMember
/* ---- DNode::findMemberImpl(const char*, size_t), static dispatch, no lookup map: the linear scan against InlinedMemcmpEq's contract ----
 * The member array is abstracted to name views; InlinedMemcmpEq is its contract: an uninterpreted "bytes equal" answer per member,
 * consulted only on exactly `len` readable bytes of the member's name and of the key. */
#define SONIC_STATIC_DISPATCH 1
#ifndef StringView_DEFINED
typedef struct { const char *data_; size_t size_; } StringView2;
#endif
#define StringView StringView2
typedef struct { StringView name_sv; } MemberStub;
typedef MemberStub *MemberIterator;
#define FM_MAX 4
typedef struct { MemberStub m[FM_MAX]; size_t n; } DNodeStub;
static inline MemberIterator DN_MemberBegin(const DNodeStub *s) { return (MemberIterator)s->m; }
static inline MemberIterator DN_MemberEnd(const DNodeStub *s) { return (MemberIterator)s->m + s->n; }
static inline void *DN_getMap(const DNodeStub *s) { (void)s; return NULL; }           /* no lookup map built */
static inline MemberIterator DN_findFromMap(const DNodeStub *s, const char *k, size_t l) { (void)k; (void)l; __CPROVER_assert(0, "C14.find.nomap: not reached without a lookup map"); return DN_MemberEnd(s); }
_Bool fm_eq[FM_MAX]; const char *fm_names[FM_MAX]; const char *fm_key; size_t fm_len;
static inline bool fm_memcmpeq(const void *a, const void *b, size_t n) {
  __CPROVER_assert(__CPROVER_r_ok(a, n) && __CPROVER_r_ok(b, n), "C14.find.extent: name and key are compared on exactly len readable bytes of each");
  __CPROVER_assert(b == (const void *)fm_key && n == fm_len, "C14.find.args: the key and its length are what is passed to the byte comparison");
  for (int i = 0; i < FM_MAX; i++) if (a == (const void *)fm_names[i]) return fm_eq[i];
  __CPROVER_assert(0, "C14.find.name: the first operand is a member's name");
  return 0;
}
#define InlinedMemcmpEq fm_memcmpeq
#include "gen/DNode.findMemberImpl.inc"
#undef InlinedMemcmpEq
size_t in_fn;
void h_findMember(void) {
  DNodeStub N; __CPROVER_assume(N.n <= FM_MAX); in_fn = N.n;
  size_t len; __CPROVER_assume(len <= 64);
  char *key = malloc(len); __CPROVER_assume(key != NULL);
  fm_key = key; fm_len = len;
  for (int i = 0; i < FM_MAX; i++) {
    size_t sz; __CPROVER_assume(sz <= 64);
    char *nm = malloc(sz); __CPROVER_assume(nm != NULL && nm != key);
    N.m[i].name_sv.data_ = nm; N.m[i].name_sv.size_ = sz; fm_names[i] = nm;
    _Bool eq; fm_eq[i] = eq;
  }
  MemberIterator r = DNode_findMemberImpl(&N, key, len);
  /* spec: the first member whose name has the same length and the same bytes; MemberEnd() if there is none */
  size_t want = N.n;
  for (int i = FM_MAX - 1; i >= 0; i--) if ((size_t)i < N.n && N.m[i].name_sv.size_ == len && fm_eq[i]) want = (size_t)i;
  VASSERT(r == N.m + want, "C14.find.first: lookup returns the first member whose name has the same length and the same bytes, MemberEnd() otherwise");
  CANARY();
}
#undef StringView
#endif
