/* C05 leaf units: hex_to_u32_nocheck, codepoint_to_utf8, handle_unicode_codepoint, kEscapedMap.
 * All harnesses are loop-free over the full input domain (route L: complete). */
#include "prelude.h"
#include "rfc8259.h"
#include "gen/digit_to_val32.inc"
#include "gen/hex_to_u32_nocheck.inc"
#include "gen/codepoint_to_utf8.inc"
#include "gen/handle_unicode_codepoint.inc"
#include "gen/kEscapedMap.inc"

/* ghost inputs, global so that a counterexample trace names them */
uint8_t in_src[12];
uint32_t in_cp;
uint8_t in_byte;
#define HAVOC_INPUTS() do { __CPROVER_havoc_object(in_src); __CPROVER_havoc_object(&in_cp); __CPROVER_havoc_object(&in_byte); } while (0)

void h_hex_to_u32_nocheck(void) {
  HAVOC_INPUTS();
  uint8_t *src = malloc(4);           /* exactly the 4 bytes the contract allows it to read */
  __CPROVER_assume(src != NULL);
  src[0] = in_src[0]; src[1] = in_src[1]; src[2] = in_src[2]; src[3] = in_src[3];
  uint32_t r = hex_to_u32_nocheck(src);
  int32_t want = spec_hex4(src);
  VASSERT(want < 0 || r == (uint32_t)want, "C05.hex.value: four hex digits yield their value");
  VASSERT(want >= 0 || (r >> 16) != 0, "C05.hex.invalid: a non-hex digit sets a bit above 15");
  VASSERT(want < 0 || (r >> 16) == 0, "C05.hex.valid-clean: valid digits set no bit above 15");
  CANARY();
}

void h_codepoint_to_utf8(void) {
  HAVOC_INPUTS();
  uint8_t *c = malloc(4);
  __CPROVER_assume(c != NULL);
  uint32_t cp = in_cp;
  size_t n = codepoint_to_utf8(cp, c);
  uint8_t want[4]; 
  if (cp > 0x10FFFF) {
    VASSERT(n == 0, "C05.utf8.range: code points above 10FFFF are refused");
  } else {
    unsigned wn = spec_utf8(cp, want);
    VASSERT(n == wn, "C05.utf8.len: shortest-form length");
    VASSERT(c[0] == want[0], "C05.utf8.b0");
    VASSERT(wn < 2 || c[1] == want[1], "C05.utf8.b1");
    VASSERT(wn < 3 || c[2] == want[2], "C05.utf8.b2");
    VASSERT(wn < 4 || c[3] == want[3], "C05.utf8.b3");
  }
  CANARY();
}

void h_handle_unicode_codepoint(void) {
  HAVOC_INPUTS();
  uint8_t *src = malloc(12);          /* read extent: at most 12 bytes from *src_ptr */
  uint8_t *dst = malloc(4);           /* write extent: at most 4 bytes at *dst_ptr */
  __CPROVER_assume(src != NULL && dst != NULL);
  for (int i = 0; i < 12; i++) src[i] = in_src[i];
  __CPROVER_assume(src[0] == '\\' && src[1] == 'u');   /* call-site fact in parseStringInplace */
  const uint8_t *sp = src; uint8_t *dp = dst;
  bool ok = handle_unicode_codepoint(&sp, &dp);
  spec_uesc_t w = spec_unicode_escape(src);
  VASSERT(ok == w.ok, "C05.uesc.accept: accepted iff RFC 8259 accepts (hex digits, surrogate pairing and order)");
  if (ok && w.ok) {
    VASSERT((size_t)(sp - src) == w.adv, "C05.uesc.advance: source advances 6 or 12");
    VASSERT((size_t)(dp - dst) == w.n, "C05.uesc.len: UTF-8 length");
    VASSERT(dst[0] == w.out[0], "C05.uesc.b0");
    VASSERT(w.n < 2 || dst[1] == w.out[1], "C05.uesc.b1");
    VASSERT(w.n < 3 || dst[2] == w.out[2], "C05.uesc.b2");
    VASSERT(w.n < 4 || dst[3] == w.out[3], "C05.uesc.b3");
  }
  CANARY();
}

void h_kEscapedMap(void) {
  HAVOC_INPUTS();
  uint8_t c = in_byte;
  int want = spec_simple_escape(c);
  VASSERT((kEscapedMap[c] != 0) == (want >= 0), "C05.escmap.domain: exactly the eight two-character escapes are known");
  VASSERT(want < 0 || kEscapedMap[c] == (uint8_t)want, "C05.escmap.meaning: each escape maps to its RFC 8259 meaning");
  CANARY();
}
