/* C09: string quoting — escape tables, CopyAndGetEscapMask, DoEscape, Quote (both preprocessor paths). */
#include "arch.h"
#include "quote_spec.h"
#ifdef SANITIZE_PATH
#define SONIC_USE_SANITIZE
#endif
#define PAGE_SIZE 4096
#ifndef CONTRACT_ONLY_DoEscape
/* (the Quote jobs replace DoEscape by its contract and leave the tables out: CBMC 6.11 aborts in symex havoc when a
 *  loop write set may alias the string literals kQuoteTab points to) */
#include "gen/QuotedChar.inc"
#include "gen/kQuoteTab.inc"
#include "gen/kNeedEscaped.inc"
#endif

/* source operand of Quote.
 * production path: the string lives in an object made of whole 4096-byte pages at any offset, ending anywhere up to
 *   the object's last byte ("ends on the last byte of a mapped page"); any read past the object is a fault.
 * sanitizer path: a heap block of exactly nb bytes — no over-read at all. */
#ifdef SANITIZE_PATH
#define QUOTE_SRC_OK(p, n) (__CPROVER_r_ok((p), (n)) && __CPROVER_POINTER_OFFSET(p) == 0 && __CPROVER_OBJECT_SIZE(p) == (n))
#else
#define QUOTE_SRC_OK(p, n) (__CPROVER_r_ok((p), (n)) && (__CPROVER_OBJECT_SIZE(p) & 4095) == 0 && \
                            __CPROVER_POINTER_OFFSET(p) + (n) <= __CPROVER_OBJECT_SIZE(p))
#endif

#ifdef CONTRACT_ONLY_DoEscape
/* libc memcpy by contract (frame only): Quote's tail copies the last nb < VEC_LEN bytes into a stack buffer; the safety
 * proof needs no fact about the copied bytes, so the destination is simply havocked (over-approximation, sound). */
void *memcpy(void *d, const void *s, size_t n)
__CPROVER_requires(__CPROVER_w_ok(d, n) && __CPROVER_r_ok(s, n))
__CPROVER_assigns(__CPROVER_object_upto(d, n))
__CPROVER_ensures(__CPROVER_return_value == d)
;
#endif
#include "gen/DoEscape.inc"
/* contract of the block classifier, proved for all blocks in job C09.CopyAndGetEscapMask and used by replacement
 * inside Quote: copies VEC_LEN bytes, no bit at or above VEC_LEN, and the LOWEST set bit marks a byte that needs an
 * escape (which is exactly what Quote's ctz consumes; the all-bits statement is the leaf harness) */
int CopyAndGetEscapMask(const char *src, char *dst)
__CPROVER_requires(__CPROVER_r_ok(src, VEC_LEN) && __CPROVER_w_ok(dst, VEC_LEN))
__CPROVER_assigns(__CPROVER_object_upto(dst, VEC_LEN))
__CPROVER_ensures(((uint64_t)(uint32_t)__CPROVER_return_value >> (VEC_LEN / 2) >> (VEC_LEN / 2)) == 0)
__CPROVER_ensures(__CPROVER_return_value == 0 || SPEC_NEED_ESCAPE(src[__builtin_ctz((unsigned)__CPROVER_return_value)]))
;
#include "gen/CopyAndGetEscapMask.inc"
#include "gen/MOVE_N_CHARS.inc"
#include "gen/Quote.inc"

uint8_t in_byte; uint8_t in_buf[VEC_LEN]; size_t in_k, in_nb, in_off;

#ifndef CONTRACT_ONLY_DoEscape
/* ---- tables: all 256 bytes (complete) ---- */
void h_quote_tables(void) {
  uint8_t c; in_byte = c;
  char want[6]; unsigned wn = spec_quote_byte(c, want);
  bool need = SPEC_NEED_ESCAPE(c);
  VASSERT(kNeedEscaped[c] == need, "C09.tab.need: kNeedEscaped[c] iff c is a quote, a backslash or below 0x20");
  VASSERT((kQuoteTab[c].n != 0) == need, "C09.tab.n0: kQuoteTab[c].n is non-zero exactly for bytes that need an escape");
  if (need) {
    VASSERT(kQuoteTab[c].n == (long)wn, "C09.tab.len: escape length is 2 or 6 as RFC 8259 requires");
    VASSERT(kQuoteTab[c].s != NULL && __CPROVER_r_ok(kQuoteTab[c].s, 8), "C09.tab.readable: the 8 bytes DoEscape copies are readable");
    unsigned k; __CPROVER_assume(k < wn);
    VASSERT(kQuoteTab[c].s[k] == want[k], "C09.tab.bytes: escape text equals the RFC 8259 escape of c");
  }
  CANARY();
}

#endif
/* ---- CopyAndGetEscapMask: all VEC_LEN-byte blocks (complete) ---- */
void h_CopyAndGetEscapMask(void) {
  __CPROVER_havoc_object(in_buf);
  char *s = malloc(VEC_LEN), *d = malloc(VEC_LEN); __CPROVER_assume(s != NULL && d != NULL);   /* exact read/write extent */
  for (int i = 0; i < VEC_LEN; i++) s[i] = (char)in_buf[i];
  size_t k; __CPROVER_assume(k < VEC_LEN); in_k = k;
  int m = CopyAndGetEscapMask(s, d);      /* (contract above enforced in this job as well) */
  VASSERT(BIT((uint32_t)m, k) == SPEC_NEED_ESCAPE(s[k]), "C09.mask.bits: mask bit i iff byte i needs an escape");
  VASSERT(((uint64_t)(uint32_t)m >> (VEC_LEN / 2) >> (VEC_LEN / 2)) == 0, "C09.mask.width: no mask bit at or above VEC_LEN");
  VASSERT(d[k] == s[k], "C09.mask.copy: the block is copied verbatim");
  CANARY();
}

#ifndef CONTRACT_ONLY_DoEscape
/* ---- DoEscape: unbounded (loop contract) ---- */
void h_DoEscape(void) {
  const char *src; char *dst; size_t nb;
  __CPROVER_assume(1 <= nb && nb <= MAXLEN);
  char *S = malloc(nb), *D = malloc(6 * nb + 2); __CPROVER_assume(S != NULL && D != NULL);    /* exact extents */
  src = S; dst = D;
  __CPROVER_assume(SPEC_NEED_ESCAPE(S[0]));
  DoEscape(src, dst, nb);
  CANARY();
}

#endif
/* ---- Quote: function contract (safety, extent, frame), callees by contract; loops unwound up to QBOUND ---- */
void h_Quote(void) {
#ifndef QBOUND
#define QBOUND MAXLEN
#endif
  size_t nb; __CPROVER_assume(nb <= QBOUND); in_nb = nb;
#ifdef SANITIZE_PATH
  char *S = malloc(nb); __CPROVER_assume(S != NULL);
  const char *src = S;
#else
  size_t pages, off; __CPROVER_assume(1 <= pages && pages <= (MAXLEN >> 12) + 2);
  char *S = malloc(pages << 12); __CPROVER_assume(S != NULL);
  __CPROVER_assume(off <= (pages << 12) && nb <= (pages << 12) - off); in_off = off;
  const char *src = S + off;
#endif
  char *dst = malloc(6 * nb + 32 + 3); __CPROVER_assume(dst != NULL);
  (void)Quote(src, nb, dst);
  CANARY();
}

/* ---- Quote: byte-exact output, bounded stand-in (nb <= QMAXNB) ---- */
#ifndef QMAXNB
#define QMAXNB (2 * VEC_LEN + 8)
#endif
uint8_t in_str[QMAXNB];
void h_Quote_exact(void) {
  size_t nb; __CPROVER_assume(nb <= QMAXNB); in_nb = nb;
#ifdef SANITIZE_PATH
  char *S = malloc(nb); __CPROVER_assume(S != NULL);
  char *src = S;
#else
  /* one page; the bytes behind the string stay unconstrained: the oracle never reads them */
  size_t off; __CPROVER_assume(off <= 4096 - nb); in_off = off;
  char *S = malloc(4096); __CPROVER_assume(S != NULL);
  char *src = S + off;
#endif
  for (size_t i = 0; i < QMAXNB; i++) if (i < nb) in_str[i] = (uint8_t)src[i];
#ifdef ISOLATED_ESCAPES
  /* this job: no two adjacent bytes need an escape (runs of escapes are the subject of job C09.DoEscape.exact) */
  for (size_t i = 0; i + 1 < QMAXNB; i++) if (i + 1 < nb) __CPROVER_assume(!(SPEC_NEED_ESCAPE(in_str[i]) && SPEC_NEED_ESCAPE(in_str[i + 1])));
#endif
  char want[6 * QMAXNB + 2]; size_t wn = spec_quote(in_str, nb, want);
  char *dst = malloc(6 * nb + 32 + 3); __CPROVER_assume(dst != NULL);
  char *r = Quote(src, nb, dst);
  VASSERT((size_t)(r - dst) == wn, "C09.quote.len: emitted length equals the RFC 8259 quoting of the nb source bytes");
  size_t k; __CPROVER_assume(k < wn); in_k = k;
  VASSERT(dst[k] == want[k], "C09.quote.bytes: emitted byte k equals the RFC 8259 quoting (independent of bytes behind the string)");
  CANARY();
}


/* ---- DoEscape: byte-exact output for runs of up to RUNMAX consecutive escaped bytes (bounded stand-in) ---- */
#ifndef CONTRACT_ONLY_DoEscape
#ifndef RUNMAX
#define RUNMAX 4
#endif
uint8_t in_run[RUNMAX + 1];
void h_DoEscape_exact(void) {
  size_t nb; __CPROVER_assume(1 <= nb && nb <= RUNMAX + 1); in_nb = nb;
  char *S = malloc(nb), *D = malloc(6 * nb + 2); __CPROVER_assume(S != NULL && D != NULL);
  for (size_t i = 0; i < RUNMAX + 1; i++) if (i < nb) in_run[i] = (uint8_t)S[i];
  __CPROVER_assume(SPEC_NEED_ESCAPE(in_run[0]));
  /* oracle: escapes of the maximal run of bytes needing an escape */
  char want[6 * (RUNMAX + 1)]; size_t wn = 0, run = 0;
  for (size_t i = 0; i < RUNMAX + 1; i++) {
    if (i < nb && run == i && SPEC_NEED_ESCAPE(in_run[i])) { char e[6]; unsigned n = spec_quote_byte(in_run[i], e); for (unsigned k = 0; k < 6; k++) if (k < n) want[wn++] = e[k]; run++; }
  }
  const char *src = S; char *dst = D; size_t left = nb;
  DoEscape(src, dst, left);
  VASSERT((size_t)(src - S) == run && left == nb - run, "C09.doescape.run: consumes exactly the maximal run of bytes that need an escape");
  VASSERT((size_t)(dst - D) == wn, "C09.doescape.len: emits exactly the escapes of that run");
  size_t k; __CPROVER_assume(k < wn); in_k = k;
  VASSERT(D[k] == want[k], "C09.doescape.bytes: emitted byte k equals the RFC 8259 escape text");
  CANARY();
}
#endif
