/* C16: MemoryPoolAllocator (allocator.h) — Malloc / Realloc / AddChunk / chunk policies under contract.
 * Everything below the "sliced" markers is text taken from /repo on every run; the BaseAllocator is a
 * contract-only dependency (assumed): Malloc(n) returns null or a fresh block of n bytes; Free releases it. */
#include "prelude.h"
#define LOCK_GUARD
#ifdef SMALL_CEX
#define ALLOC_MAX ((size_t)1 << 16)      /* only used when re-deriving a counterexample small enough to replay natively */
#else
#define ALLOC_MAX ((size_t)1 << 48)
#endif
#define ALLOC_MAX_DOC      /* stated bound: sizes, capacities and the policy's chunk size are at most 2^48 (CBMC's pointer model
                                           holds offsets below 2^55; the code itself wraps only beyond 2^63) */

typedef struct BaseAllocator { char unused; } BaseAllocator;
BaseAllocator the_base_allocator;
static inline BaseAllocator *BaseAllocator_new(void) { return &the_base_allocator; }
static inline void BaseAllocator_delete(BaseAllocator *a) { (void)a; }
_Bool nondet_bool(void);
/* assumed contract of the base allocator (SimpleAllocator::Malloc -> std::malloc): null, or a fresh block of n bytes
 * (offset 0 in its own object: CBMC's rendering of "suitably aligned for any object") */
static inline void *BaseAllocator_Malloc(BaseAllocator *a, size_t n) {
  __CPROVER_assert(a != NULL, "C16.base: base allocator pointer is non-null at every use");
  if (n == 0 || nondet_bool()) return NULL;
  return malloc(n);
}
int ghost_free_count;          /* ghost: number of blocks returned to the base allocator */
static inline void BaseAllocator_Free(BaseAllocator *a, void *p) {
  __CPROVER_assert(a != NULL, "C16.base: base allocator pointer is non-null at every use");
  if (p != NULL) ghost_free_count++;
  free(p);                      /* CBMC's free: double free and free of a non-heap or interior pointer are obligations */
}

/* ---- sliced: configuration macros, SONIC_ALIGN, chunk/shared headers, members ---- */
#ifdef ADAPTIVE
#define SONIC_ADAPTIVE_MEMORYPOOL
#endif
#include "gen/alloc.config.inc"
#include "gen/SONIC_ALIGN.inc"
typedef struct ChunkHeader ChunkHeader;
typedef struct SharedData SharedData;
#include "gen/ChunkHeader.inc"
#include "gen/SharedData.inc"
#include "gen/alloc.sizeof.inc"
typedef struct ChunkPolicy { size_t min_chunk_size_; } ChunkPolicy;
typedef struct MemoryPoolAllocator {
#include "gen/alloc.fields.inc"
} MemoryPoolAllocator;
#include "gen/GetChunkHead.inc"
#include "gen/GetChunkBuffer.inc"

/* representation invariant of a live pool (derived from the constructors and from every mutator) */
#define HEAD(a) ((a)->shared_->chunkHead)
#define POOL_WF(a) (__CPROVER_rw_ok((a), sizeof(MemoryPoolAllocator)) && __CPROVER_rw_ok((a)->shared_, sizeof(SharedData)) && \
   (a)->shared_->refcount >= 1 && __CPROVER_rw_ok(HEAD(a), sizeof(ChunkHeader)) && \
   HEAD(a)->capacity <= ALLOC_MAX && HEAD(a)->size <= HEAD(a)->capacity && (HEAD(a)->size & 7) == 0 && \
   (__CPROVER_POINTER_OFFSET(HEAD(a)) & 7) == 0 && \
   __CPROVER_rw_ok((uint8_t *)HEAD(a), SIZEOF_CHUNK_HEADER + HEAD(a)->capacity) && \
   !__CPROVER_same_object(HEAD(a), (a)) && !__CPROVER_same_object((a)->shared_, (a)) && \
   ((a)->baseAllocator_ == NULL || (a)->baseAllocator_ == &the_base_allocator) && (a)->cp_.min_chunk_size_ <= ALLOC_MAX)

#ifdef ADAPTIVE
#include "gen/AdaptiveChunkPolicy.ChunkSize.inc"
#else
#include "gen/SimpleChunkPolicy.ChunkSize.inc"
#endif
/* the list-walking members are linked into every job so that a body that starts calling them still resolves */
#include "gen/MemoryPoolAllocator.Clear.inc"
#include "gen/MemoryPoolAllocator.Capacity.inc"
#include "gen/MemoryPoolAllocator.Size.inc"
#define Capacity() MemoryPoolAllocator_Capacity(self)
#define Size() MemoryPoolAllocator_Size(self)
#include "gen/MemoryPoolAllocator.AddChunk.inc"
#include "gen/MemoryPoolAllocator.Malloc.inc"

/* libc memcpy (assumed): copies n bytes; stated for one arbitrary index (ghost) */
size_t ghost_k; uint8_t ghost_v;
#ifdef UNIT_Realloc
void *memcpy(void *d, const void *s, size_t n)
__CPROVER_requires(__CPROVER_w_ok(d, n) && __CPROVER_r_ok(s, n))
__CPROVER_assigns(__CPROVER_object_upto(d, n))
__CPROVER_ensures(__CPROVER_return_value == d)
__CPROVER_ensures(ghost_k >= n || ((const uint8_t *)d)[ghost_k] == ((const uint8_t *)s)[ghost_k])
;
void *MemoryPoolAllocator_Realloc(MemoryPoolAllocator *self, void *originalPtr, size_t originalSize, size_t newSize)
__CPROVER_requires(POOL_WF(self) && originalSize <= ALLOC_MAX && newSize <= ALLOC_MAX)
/* the old block was handed out by this pool with its size rounded up to 8 */
__CPROVER_requires(originalPtr == NULL || (__CPROVER_r_ok(originalPtr, SONIC_ALIGN(originalSize)) && !__CPROVER_same_object(originalPtr, self) && !__CPROVER_same_object(originalPtr, self->shared_)))
__CPROVER_requires(originalPtr == NULL || ghost_k >= SONIC_ALIGN(originalSize) || ghost_v == ((const uint8_t *)originalPtr)[ghost_k])
/* frame: only pool bookkeeping and bytes of the head chunk that were NOT handed out before (from the bump pointer on) */
__CPROVER_assigns(self->shared_->chunkHead, self->shared_->chunkHead->size, self->shared_->ownBaseAllocator, self->baseAllocator_, self->cp_.min_chunk_size_,
                  __CPROVER_object_from((uint8_t *)self->shared_->chunkHead + SIZEOF_CHUNK_HEADER + self->shared_->chunkHead->size))
/* C16: zero-size requests return null */
__CPROVER_ensures(newSize != 0 || __CPROVER_return_value == NULL)
/* shrinking (after rounding) keeps the block where it is and changes nothing */
__CPROVER_ensures(originalPtr == NULL || newSize == 0 || SONIC_ALIGN(originalSize) < SONIC_ALIGN(newSize) ||
                  (__CPROVER_return_value == originalPtr && HEAD(self) == __CPROVER_old(self->shared_->chunkHead) && HEAD(self)->size == __CPROVER_old(self->shared_->chunkHead->size)))
/* growing: in place (same pointer, head chunk grown by the rounded difference, still within capacity), or a block inside the head chunk, or null */
__CPROVER_ensures(originalPtr == NULL || newSize == 0 || SONIC_ALIGN(originalSize) >= SONIC_ALIGN(newSize) || __CPROVER_return_value == NULL ||
                  (POOL_WF(self) && HEAD(self)->size <= HEAD(self)->capacity &&
                   (__CPROVER_return_value == originalPtr
                      ? (HEAD(self) == __CPROVER_old(self->shared_->chunkHead) &&
                         HEAD(self)->size == __CPROVER_old(self->shared_->chunkHead->size) + (SONIC_ALIGN(newSize) - SONIC_ALIGN(originalSize)) &&
                         __CPROVER_same_object(originalPtr, HEAD(self)) &&
                         __CPROVER_POINTER_OFFSET(originalPtr) + SONIC_ALIGN(newSize) == __CPROVER_POINTER_OFFSET(HEAD(self)) + SIZEOF_CHUNK_HEADER + HEAD(self)->size)
                      : (__CPROVER_same_object(__CPROVER_return_value, HEAD(self)) && (__CPROVER_POINTER_OFFSET(__CPROVER_return_value) & 7) == 0 &&
                         __CPROVER_POINTER_OFFSET(__CPROVER_return_value) + SONIC_ALIGN(newSize) == __CPROVER_POINTER_OFFSET(HEAD(self)) + SIZEOF_CHUNK_HEADER + HEAD(self)->size))))
/* the first min(old,new) bytes of the result equal the old contents (ghost index), and the old block itself is intact */
__CPROVER_ensures(originalPtr == NULL || __CPROVER_return_value == NULL || ghost_k >= SONIC_ALIGN(originalSize) || ghost_k >= SONIC_ALIGN(newSize) ||
                  ((const uint8_t *)__CPROVER_return_value)[ghost_k] == ghost_v)
__CPROVER_ensures(originalPtr == NULL || ghost_k >= SONIC_ALIGN(originalSize) || ((const uint8_t *)originalPtr)[ghost_k] == ghost_v)
;
#include "gen/MemoryPoolAllocator.Realloc.inc"
#endif

size_t in_size, in_cap, in_used, in_min, in_osize, in_nsize, in_off, in_cap1, in_s1, in_s2;
_Bool in_user_buffer;

/* ---- harness helpers: an arbitrary well-formed pool state ---- */
#define MAKE_POOL()                                                                          \
  MemoryPoolAllocator A;                                                                     \
  SharedData *sh = malloc(sizeof(SharedData)); __CPROVER_assume(sh != NULL);                 \
  size_t cap, used; __CPROVER_assume(cap <= ALLOC_MAX && used <= cap && (used & 7) == 0);    \
  ChunkHeader *h = malloc(SIZEOF_CHUNK_HEADER + cap); __CPROVER_assume(h != NULL);           \
  h->capacity = cap; h->size = used; sh->chunkHead = h; sh->refcount = 1; h->next = NULL;    \
  /* optionally an older, exhausted-or-not chunk behind the head (what "after another allocation" / "across a     \
     chunk edge" need): Malloc and Realloc must never look at it */                                               \
  if (nondet_bool()) {                                                                       \
    size_t cap1, used1; __CPROVER_assume(cap1 <= ALLOC_MAX && used1 <= cap1 && (used1 & 7) == 0); \
    ChunkHeader *h1 = malloc(SIZEOF_CHUNK_HEADER + cap1); __CPROVER_assume(h1 != NULL);      \
    h1->capacity = cap1; h1->size = used1; h1->next = NULL; h->next = h1; in_cap1 = cap1;    \
  }                                                                                          \
  A.shared_ = sh; A.baseAllocator_ = nondet_bool() ? NULL : &the_base_allocator;             \
  __CPROVER_assume(A.cp_.min_chunk_size_ <= ALLOC_MAX); in_min = A.cp_.min_chunk_size_;                  \
  in_cap = cap; in_used = used;

void h_ChunkSize(void) { ChunkPolicy cp; size_t n; (void)ChunkPolicy_ChunkSize(&cp, n); CANARY(); }

void h_Malloc(void) {
  MAKE_POOL();
  size_t size; in_size = size;
  (void)MemoryPoolAllocator_Malloc(&A, size);
  CANARY();
}

#ifdef UNIT_Realloc
void h_Realloc(void) {
  MAKE_POOL();
  size_t osz, nsz; in_osize = osz; in_nsize = nsz;
  __CPROVER_assume(osz <= ALLOC_MAX && nsz <= ALLOC_MAX);
  /* the old block: null, or a block previously handed out by this pool — inside the head chunk below the bump pointer
   * (possibly the most recent one), or inside an older chunk */
  void *op = NULL;
  if (nondet_bool()) {
    if (nondet_bool()) {
      size_t off; __CPROVER_assume((off & 7) == 0 && off <= used && SONIC_ALIGN(osz) <= used - off); in_off = off;
      op = (uint8_t *)h + SIZEOF_CHUNK_HEADER + off;
    } else {
      op = malloc(SONIC_ALIGN(osz)); __CPROVER_assume(op != NULL);      /* a block living in an older chunk */
    }
    if (ghost_k < SONIC_ALIGN(osz)) ghost_v = ((uint8_t *)op)[ghost_k];
  }
  (void)MemoryPoolAllocator_Realloc(&A, op, osz, nsz);
  CANARY();
}
#endif

/* ---- lemma over the Malloc contract: two consecutive allocations never overlap ---- */
void h_disjoint(void) {
  MAKE_POOL();
  size_t s1, s2; __CPROVER_assume(s1 <= ALLOC_MAX && s2 <= ALLOC_MAX); in_s1 = s1; in_s2 = s2;
  uint8_t *p1 = MemoryPoolAllocator_Malloc(&A, s1);
  uint8_t *p2 = MemoryPoolAllocator_Malloc(&A, s2);
  if (p1 != NULL && p2 != NULL) {
    VASSERT(!__CPROVER_same_object(p1, p2) || __CPROVER_POINTER_OFFSET(p2) >= __CPROVER_POINTER_OFFSET(p1) + SONIC_ALIGN(s1),
            "C16.disjoint: a block overlaps no block handed out before it (bump within a chunk, or a fresh chunk)");
    VASSERT(((__CPROVER_POINTER_OFFSET(p1) | __CPROVER_POINTER_OFFSET(p2)) & 7) == 0, "C16.aligned: blocks are 8-byte aligned");
  }
  CANARY();
}


/* ---- chunk-list walks and life cycle: bounded stand-in (pools of at most 3 chunks), plain CBMC, real bodies ---- */
#ifdef UNIT_Lifecycle
#include "gen/MemoryPoolAllocator.dtor.inc"
#include "gen/MemoryPoolAllocator.copy_assign.inc"
#include "gen/MemoryPoolAllocator.move_assign.inc"
#undef Clear
#undef Capacity
#undef Size
size_t in_chunks, in_refcount; _Bool in_own; int in_mode;
typedef struct { SharedData *sh; ChunkHeader *first; size_t total_size, total_cap, extra; } pool_model_t;
/* an arbitrary pool as the constructors and Malloc can leave it: the first chunk lives behind the shared header (capacity 0
 * for an owned block, the rest of the buffer for a user buffer); up to 2 further chunks pushed in front */
static pool_model_t make_pool_list(MemoryPoolAllocator *A) {
  pool_model_t m;
  size_t cap0; __CPROVER_assume(cap0 <= 64);
  _Bool own = nondet_bool(); if (own) cap0 = 0;
  uint8_t *blk = malloc(SIZEOF_SHARED_DATA + SIZEOF_CHUNK_HEADER + cap0); __CPROVER_assume(blk != NULL);
  SharedData *sh = (SharedData *)blk;
  sh->chunkHead = GetChunkHead(sh);
  size_t s0; __CPROVER_assume(s0 <= cap0);
  sh->chunkHead->capacity = cap0; sh->chunkHead->size = s0; sh->chunkHead->next = NULL;
  sh->ownBuffer = own; sh->ownBaseAllocator = nondet_bool() ? &the_base_allocator : NULL;
  size_t rc; __CPROVER_assume(1 <= rc && rc <= 3); sh->refcount = rc;
  m.sh = sh; m.first = sh->chunkHead; m.total_size = s0; m.total_cap = cap0; m.extra = 0;
  for (int i = 0; i < 2; i++) {
    if (nondet_bool()) {
      size_t cap, sz; __CPROVER_assume(cap <= 64 && sz <= cap);
      ChunkHeader *c = malloc(SIZEOF_CHUNK_HEADER + cap); __CPROVER_assume(c != NULL);
      c->capacity = cap; c->size = sz; c->next = sh->chunkHead; sh->chunkHead = c;
      m.total_size += sz; m.total_cap += cap; m.extra++;
    }
  }
  A->shared_ = sh; A->baseAllocator_ = &the_base_allocator;
  in_chunks = m.extra + 1; in_refcount = rc; in_own = own;
  return m;
}
void h_walks(void) {
  MemoryPoolAllocator A; pool_model_t m = make_pool_list(&A);
  VASSERT(MemoryPoolAllocator_Size(&A) == m.total_size, "C16.size: Size() is the sum of what every chunk handed out");
  VASSERT(MemoryPoolAllocator_Capacity(&A) == m.total_cap, "C16.capacity: Capacity() is the sum of the chunk capacities");
  ghost_free_count = 0;
  MemoryPoolAllocator_Clear(&A);
  VASSERT(ghost_free_count == (int)m.extra, "C16.clear.release: Clear releases every chunk except the first/user one, each exactly once");
  VASSERT(A.shared_ == m.sh && m.sh->chunkHead == m.first && m.first->size == 0 && m.first->next == NULL, "C16.clear.reset: after Clear only the first chunk remains and it is empty");
  VASSERT(__CPROVER_rw_ok(m.first, SIZEOF_CHUNK_HEADER + m.first->capacity), "C16.clear.keep: the first chunk stays allocated");
  CANARY();
}
void h_dtor(void) {
  MemoryPoolAllocator A; pool_model_t m = make_pool_list(&A);
  size_t rc = m.sh->refcount; _Bool own = m.sh->ownBuffer;
  ghost_free_count = 0;
  MemoryPoolAllocator_dtor(&A);
  if (rc > 1) {
    VASSERT(ghost_free_count == 0 && m.sh->refcount == rc - 1 && __CPROVER_rw_ok(m.sh, sizeof(SharedData)), "C16.dtor.shared: destroying one of several copies only drops the count; the pool stays valid");
  } else {
    VASSERT(ghost_free_count == (int)m.extra + (own ? 1 : 0), "C16.dtor.last: the last copy releases every chunk and the shared block once; a user buffer is never released");
  }
  CANARY();
}
void h_copy_assign(void) {
  MemoryPoolAllocator A, B; pool_model_t ma = make_pool_list(&A);
  MemoryPoolAllocator *dst = &A, *src;
  pool_model_t mb;
  int mode; __CPROVER_assume(0 <= mode && mode <= 2); in_mode = mode;
  if (mode == 0) { mb = make_pool_list(&B); src = &B; }                         /* two unrelated pools */
  else if (mode == 1) { B = A; ma.sh->refcount++; mb = ma; src = &B; __CPROVER_assume(ma.sh->refcount <= 3); }   /* two copies of one pool */
  else { mb = ma; src = &A; }                                                   /* self-assignment */
  size_t rca = ma.sh->refcount, rcb = mb.sh->refcount; _Bool owna = ma.sh->ownBuffer;
  ghost_free_count = 0;
  (void)MemoryPoolAllocator_copy_assign(dst, src);
  VASSERT(dst->shared_ == mb.sh, "C16.assign.adopt: the target now uses the source's pool");
  if (mode == 0) {
    VASSERT(mb.sh->refcount == rcb + 1, "C16.assign.count: the adopted pool gains one owner");
    VASSERT(rca > 1 ? (ghost_free_count == 0 && ma.sh->refcount == rca - 1) : ghost_free_count == (int)ma.extra + (owna ? 1 : 0),
            "C16.assign.release: the previous pool loses one owner and is released exactly when that was the last one");
  } else {
    VASSERT(ghost_free_count == 0 && __CPROVER_rw_ok(mb.sh, sizeof(SharedData)) && mb.sh->refcount == rcb,
            "C16.assign.alias: assigning a pool to itself or to one of its own copies releases nothing and keeps the owner count");
    VASSERT(__CPROVER_rw_ok(mb.sh->chunkHead, SIZEOF_CHUNK_HEADER), "C16.assign.alive: the shared pool stays valid until its last copy is destroyed");
  }
  CANARY();
}
#endif

#ifdef UNIT_AlignBuffer
/* ---- AlignBuffer (user-supplied initial buffer): result is pointer-aligned, inside the buffer, size shrinks by the skipped bytes ---- */
#include "gen/MemoryPoolAllocator.AlignBuffer.inc"
size_t in_asz, in_aoff;
void h_AlignBuffer(void) {
  size_t off, sz; __CPROVER_assume(off < 64 && sz <= 4096 && sz >= 8); in_aoff = off; in_asz = sz;
  uint8_t *blk = malloc(off + sz); __CPROVER_assume(blk != NULL);      /* a user buffer at any misalignment inside its object */
  size_t size = sz;
  uint8_t *r = AlignBuffer(blk + off, size);
  VASSERT(((uintptr_t)r & (sizeof(void *) - 1)) == 0, "C16.alignbuffer.aligned: the pool header is placed at a pointer-aligned address");
  VASSERT(__CPROVER_same_object(r, blk) && r >= blk + off && r + size == blk + off + sz, "C16.alignbuffer.inside: the aligned region is the tail of the user buffer, size reduced by exactly the skipped bytes");
  VASSERT((size_t)(r - (blk + off)) < sizeof(void *), "C16.alignbuffer.skip: fewer than 8 bytes are skipped");
  CANARY();
}
#endif

#ifdef UNIT_Lifecycle
void h_move_assign(void) {
  MemoryPoolAllocator A, B; pool_model_t ma = make_pool_list(&A); pool_model_t mb = make_pool_list(&B);      /* two unrelated pools */
  size_t rca = ma.sh->refcount, rcb = mb.sh->refcount; _Bool owna = ma.sh->ownBuffer;
  ghost_free_count = 0;
  (void)MemoryPoolAllocator_move_assign(&A, &B);
  VASSERT(A.shared_ == mb.sh && B.shared_ == NULL, "C16.move.adopt: the target takes over the source's pool and the source is left empty");
  VASSERT(mb.sh->refcount == rcb, "C16.move.count: moving does not change the owner count of the moved pool");
  VASSERT(rca > 1 ? (ghost_free_count == 0 && ma.sh->refcount == rca - 1) : ghost_free_count == (int)ma.extra + (owna ? 1 : 0),
          "C16.move.release: the target's previous pool loses one owner and is released exactly when that was the last one");
  ghost_free_count = 0;
  MemoryPoolAllocator_dtor(&B);
  VASSERT(ghost_free_count == 0, "C16.move.source: destroying the moved-from allocator releases nothing");
  CANARY();
}
#endif
