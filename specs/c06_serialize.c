/* C06 / C09: SerializeImpl (dom/serialize.h) — every unchecked write is covered by the reservation made before it.
 * Bounded stand-in (at most NODES node visits), plain CBMC. The write buffer is abstracted to (size, capacity) with the
 * semantics PROVED for internal::Stack in the C06 Stack jobs: Reserve(n) -> capacity >= n; Grow(n) -> size + n <= capacity;
 * unchecked pushes must satisfy size + k <= capacity. The emitters are the extent contracts of their own properties:
 * Quote needs 6*n + 32 + 3 writable bytes and emits n+2 .. 6*n+2 (C09); I64toa / U64toa touch at most 25 / 24 bytes and emit
 * at most 21 / 20 (C08); F64toa is ASSUMED to touch and emit at most 32 (C07, undecided). The node tree is a
 * nondeterministic array of nodes (any kinds, any sizes): an over-approximation of every document. */
#include "prelude.h"
#include <sys/types.h>
#ifndef NODES
#define NODES 6
#endif
enum { kNull = 0, kBool = 2, kNumber = 3, kString = 4, kRaw = 5, kObject = 6, kArray = 7, kUint = 3, kSint = 11, kReal = 19 };
typedef struct Node { uint8_t basic; uint8_t sub; size_t size; _Bool is_false; } Node;
Node nodes[NODES + 1];
size_t ghost_visits;          /* ghost: node accesses so far; paths that visit more than NODES nodes are cut (the bound) */
static inline const Node *node_ok(const Node *n) { __CPROVER_assume(n >= nodes && n < nodes + NODES); return n; }
static inline _Bool Node_IsContainer(const Node *n) { n = node_ok(n); return n->basic == kObject || n->basic == kArray; }
static inline _Bool Node_IsObject(const Node *n) { n = node_ok(n); return n->basic == kObject; }
static inline size_t Node_Size(const Node *n) { n = node_ok(n); return n->size; }
static inline _Bool Node_Empty(const Node *n) { n = node_ok(n); return n->size == 0; }
static inline int Node_getBasicType(const Node *n) { n = node_ok(n); return n->basic; }
static inline int Node_GetType(const Node *n) { n = node_ok(n); return n->basic == kNumber ? n->sub : n->basic; }
static inline _Bool Node_IsFalse(const Node *n) { n = node_ok(n); return n->is_false; }
static inline const char *Node_GetStringData(const Node *n) { (void)n; return NULL; }      /* never dereferenced here: Quote is a stub */
static inline const char *Node_GetRawData(const Node *n) { (void)n; return NULL; }
static inline int64_t Node_GetInt64(const Node *n) { (void)n; int64_t v; return v; }
static inline uint64_t Node_GetUint64(const Node *n) { (void)n; uint64_t v; return v; }
static inline double Node_GetDouble(const Node *n) { (void)n; double v; return v; }
static inline const Node *Node_next(const Node *n) { ghost_visits++; return n + 1; }
static inline const Node *Node_getObjChildrenFirstUnsafe(const Node *n) { ghost_visits++; return n + 1; }
static inline const Node *Node_getArrChildrenFirstUnsafe(const Node *n) { ghost_visits++; return n + 1; }

/* ---- write buffer: (size, capacity) abstraction of internal::Stack (contracts: jobs C06.Stack.*) ---- */
typedef struct { size_t size, cap; } WriteBuffer;
size_t nondet_size(void);
#define IN_CAP(wb, k, what) __CPROVER_assert((wb)->size + (k) <= (wb)->cap, what)
static inline void WB_Clear(WriteBuffer *w) { w->size = 0; }
static inline void WB_Reserve(WriteBuffer *w, size_t n) { if (n >= w->cap) w->cap = n; }
static inline void WB_Grow(WriteBuffer *w, size_t n) {       /* Stack::Grow contract: afterwards size + n <= capacity, capacity never shrinks */
  if (w->size + n >= w->cap) { size_t c = nondet_size(); __CPROVER_assume(c >= w->size + n && c >= w->cap && c <= ((size_t)1 << 40)); w->cap = c; }
}
static inline void WB_PushUnsafe_char(WriteBuffer *w, char c) { (void)c; IN_CAP(w, 1, "C06.ser.push1: an unchecked one-byte push lies inside the capacity reserved before it"); w->size += 1; }
static inline void WB_PushSizeUnsafe_char(WriteBuffer *w, size_t n) { IN_CAP(w, n, "C06.ser.pushn: the bytes an emitter produced lie inside the capacity reserved before it"); w->size += n; }
static inline void WB_PushUnsafe(WriteBuffer *w, const char *p, size_t n) { (void)p; IN_CAP(w, n, "C06.ser.raw: a raw value is copied inside the capacity reserved before it"); w->size += n; }
static inline void WB_Push5_8(WriteBuffer *w, const char *p, size_t n) { (void)p; WB_Grow(w, 8); w->size += n; }    /* Stack::Push5_8: Grow(8), 8-byte copy, advance n <= 8 */
static inline void WB_Pop_char(WriteBuffer *w, size_t n) { __CPROVER_assert(n <= w->size, "C06.ser.pop: the trailing separator that is popped was pushed before"); w->size -= n; }
/* ---- emitters: extent contracts ---- */
static inline ssize_t EMIT_Quote(WriteBuffer *w, const char *s, size_t n) {
  (void)s; __CPROVER_assert(n <= ((size_t)1 << 32) && w->size + 6 * n + 32 + 3 <= w->cap, "C09.callsite.quote: Quote is handed at least 6*n + 32 + 3 writable bytes (its contract's precondition)");
  size_t r = nondet_size(); __CPROVER_assume(r >= n + 2 && r <= 6 * n + 2); return (ssize_t)r;
}
static inline ssize_t EMIT_I64toa(WriteBuffer *w, int64_t v) { (void)v; __CPROVER_assert(w->size + 25 <= w->cap, "C08.callsite.i64: I64toa is handed at least 25 writable bytes"); size_t r = nondet_size(); __CPROVER_assume(r >= 1 && r <= 21); return (ssize_t)r; }
static inline ssize_t EMIT_U64toa(WriteBuffer *w, uint64_t v) { (void)v; __CPROVER_assert(w->size + 24 <= w->cap, "C08.callsite.u64: U64toa is handed at least 24 writable bytes"); size_t r = nondet_size(); __CPROVER_assume(r >= 1 && r <= 20); return (ssize_t)r; }
static inline ssize_t EMIT_F64toa(WriteBuffer *w, double v) { (void)v; __CPROVER_assert(w->size + 32 <= w->cap, "C07.callsite.f64: F64toa is handed at least 32 writable bytes (its assumed extent)"); size_t r = nondet_size(); __CPROVER_assume(r <= 32); return (ssize_t)r; }
/* ---- the parent stack (internal::Stack of ParentCtx): a bounded array ---- */
typedef struct PStack { struct { uint64_t len; const Node *ptr; } e[NODES + 1]; size_t n; } PStack;
#define PStack_init(s) ((s)->n = 0)
#define PStack_Push(s, l, p) do { __CPROVER_assume((s)->n < NODES); (s)->e[(s)->n].len = (l); (s)->e[(s)->n].ptr = (p); (s)->n++; } while (0)
#define PStack_Size(s) ((s)->n)
#define PStack_Top(s) ((ParentCtx *)&(s)->e[(s)->n - 1])
#define PStack_Pop(s) ((s)->n--)

#include "gen/SerializeImpl.inc"

size_t in_cap0, in_size0;
void h_SerializeImpl(void) {
  for (int i = 0; i < NODES; i++) {
    uint8_t b; __CPROVER_assume(b == kNull || b == kBool || b == kNumber || b == kString || b == kRaw || b == kObject || b == kArray);
    uint8_t sb; __CPROVER_assume(sb == kUint || sb == kSint || sb == kReal);
    size_t sz; __CPROVER_assume(sz <= ((size_t)1 << 32));
    nodes[i].basic = b; nodes[i].sub = sb; nodes[i].size = sz; nodes[i].is_false = nondet_size() & 1;
  }
  WriteBuffer wb; __CPROVER_assume(wb.size <= wb.cap && wb.cap <= ((size_t)1 << 40));     /* fresh, reused, small or zero capacity */
  in_cap0 = wb.cap; in_size0 = wb.size;
  (void)SerializeImpl(nodes, &wb);
  CANARY();
}
