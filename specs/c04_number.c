/* C04: Parser::parseNumber (dom/parser.h) — number grammar, integer kinds and exact values, mantissa/exponent/truncation
 * bookkeeping handed to the float converters, and the converters' preconditions. Bounded stand-in: number texts of at most
 * NB bytes (every branch combination incl. 19/20/21-digit integers). The float converters are contract-only stubs: their
 * ROUNDING is not decided here (no installed back end decides 128-bit products against a 697-row table). */
#include "prelude.h"
#include <limits.h>
#ifndef NB
#define NB 26
#endif
#define PAD 64                      /* SONICJSON_PADDING: the parser's private copy is followed by 64 bytes */
typedef struct Parser {
#include "gen/Parser.fields.inc"
} Parser;
#include "gen/kPow10Tab.inc"
#include "gen/is_digit.inc"

/* ---- SAX recording stub ---- */
typedef struct { int kind; int64_t i; uint64_t u; double d; int calls; } SAX;     /* kind: 1 Int, 2 Uint, 3 Double */
_Bool nondet_bool(void);
static inline _Bool SAX_Int(SAX *s, int64_t v) { s->kind = 1; s->i = v; s->calls++; return 1; }
static inline _Bool SAX_Uint(SAX *s, uint64_t v) { s->kind = 2; s->u = v; s->calls++; return 1; }
static inline _Bool SAX_Double(SAX *s, double v) { s->kind = 3; s->d = v; s->calls++; return 1; }

/* ---- converter stubs: preconditions taken from the real bodies (LeadingZeroes(man), man << clz, table indices) ---- */
struct { int calls; uint64_t man; int exp10; int sgn; int trunc; int which; } conv;   /* ghost record of the last converter call */
double nondet_double(void); uint64_t nondet_u64(void);
static inline _Bool (ParseFloatingNormalFast)(uint64_t *raw, int exp10, uint64_t man, int sgn) {
  __CPROVER_assert(man != 0, "C04.pre.normalfast.man: ParseFloatingNormalFast computes LeadingZeroes(man) and man << lz: the mantissa must be non-zero");
  __CPROVER_assert(exp10 + 348 >= 0 && exp10 + 348 <= 696, "C04.pre.normalfast.idx: kPow10M128Tab index exp10 + 348 in range");
  __CPROVER_assert(exp10 > -308 + 1 && exp10 < 308 - 20, "C04.pre.normalfast.range: ParseFloatingNormalFast is entered only with -307 < exp10 < 288 (so that its result is a normal double)");
  conv.calls++; conv.man = man; conv.exp10 = exp10; conv.sgn = sgn; conv.trunc = 0; conv.which = 1;
  if (nondet_bool()) return 0;
  *raw = nondet_u64(); return 1;
}
#define ParseFloatingNormalFast(r, e, m, s) (ParseFloatingNormalFast)(&(r), e, m, s)
static inline SonicError Parser_parseFloatEiselLemire64(Parser *self, double *dbl, int exp10, uint64_t man, int sgn, _Bool trunc, const char *s) {
  (void)self; (void)s;
  /* the real body calls AtofEiselLemire64(man, ...) first: LeadingZeroes(mant), mant <<= clz whenever -348 <= exp10 <= 347 */
  __CPROVER_assert(man != 0 || exp10 < -348 || exp10 > 347, "C04.pre.eisel.man: AtofEiselLemire64 computes LeadingZeroes(mant) and mant << clz: the mantissa must be non-zero");
  conv.calls++; conv.man = man; conv.exp10 = exp10; conv.sgn = sgn; conv.trunc = trunc; conv.which = 2;
  *dbl = nondet_double();
  return nondet_bool() ? kParseErrorInfinity : kErrorNone;
}
#define parseFloatEiselLemire64(d, e, m, sg, t, s) Parser_parseFloatEiselLemire64(self, &(d), e, m, sg, t, s)
/* simd_str2int (sse/str2int.h): ASSUMED contract — reads 16 bytes at c; parses the leading run of at most man_nd digits,
 * returns their value and stores their count */
static inline uint64_t (simd_str2int)(const char *c, int *man_nd) {
  __CPROVER_assert(__CPROVER_r_ok(c, 16), "C04.pre.simd_str2int: 16 readable bytes at the fraction start (inside the padding)");
  __CPROVER_assert(*man_nd >= 1 && *man_nd <= 17, "C04.pre.simd_str2int.n: between 1 and 17 digits requested");
  uint64_t v = 0; int n = 0;
  for (int k = 0; k < 16; k++) { if (k == n && n < *man_nd && c[k] >= '0' && c[k] <= '9') { v = v * 10 + (uint64_t)(c[k] - '0'); n++; } }
  *man_nd = n; return v;
}
#define simd_str2int(c, n) (simd_str2int)(c, &(n))

#include "gen/Parser.carry_one.inc"
#include "gen/Parser.str2int.inc"
#ifdef UNIT_parseFloatingFast
#include "gen/Parser.parseFloatingFast.inc"
#else
/* parseFloatingFast by contract inside the parseNumber job (its own table-index proof is job C04.parseFloatingFast):
 * the exact small-mantissa path; IEEE multiplication/division are not bit-blasted here */
static inline _Bool Parser_parseFloatingFast(Parser *self, double *d, int exp10, uint64_t man) {
  (void)self;
  __CPROVER_assert((man >> 52) == 0 && exp10 <= 22 + 15 && exp10 >= -22, "C04.pre.exactfast: parseFloatingFast is entered only with man < 2^52 and -22 <= exp10 <= 37 (kPow10Tab indices)");
  conv.calls++; conv.man = man; conv.exp10 = exp10; conv.sgn = 0; conv.trunc = 0; conv.which = 3;
  if (nondet_bool()) return 0;
  *d = nondet_double(); return 1;
}
#define parseFloatingFast(d, e, m) Parser_parseFloatingFast(self, &(d), e, m)
#endif
#include "gen/Parser.parseNumber.inc"

/* ---- oracle: RFC 8259 section 6 number grammar, written independently ---- */
typedef struct {
  _Bool valid; size_t end;          /* end: index of the first byte that cannot continue the number */
  _Bool neg, is_int;
  _Bool fits_u64; uint64_t mag;     /* integers: magnitude if it fits in 64 bits */
  _Bool all_zero;                   /* every digit of the integer and fraction part is 0 */
  _Bool dropped_nonzero_19;         /* a non-zero digit exists beyond the first 19 significant digits */
} num_t;
static inline _Bool dig(char c) { return c >= '0' && c <= '9'; }
static num_t spec_number(const char *s) {
  num_t r; r.valid = 0; r.end = 0; r.neg = 0; r.is_int = 1; r.fits_u64 = 1; r.mag = 0; r.all_zero = 1; r.dropped_nonzero_19 = 0;
  size_t i = 0; int sig = 0;        /* sig: significant digits seen so far (leading zeros not counted) */
  if (s[i] == '-') { r.neg = 1; i++; }
  if (!dig(s[i])) { r.end = i; return r; }
  if (s[i] == '0') { i++; }
  else {
    for (int k = 0; k < NB; k++) if (dig(s[i])) {
      unsigned d = (unsigned)(s[i] - '0');
      if (r.mag > 0xFFFFFFFFFFFFFFFFull / 10 || (r.mag == 0xFFFFFFFFFFFFFFFFull / 10 && d > 0xFFFFFFFFFFFFFFFFull % 10)) r.fits_u64 = 0;
      r.mag = r.mag * 10 + d;
      if (d != 0 || sig > 0) { if (sig >= 19 && d != 0) r.dropped_nonzero_19 = 1; sig++; }
      r.all_zero = 0; i++;
    }
  }
  if (s[i] == '.') {
    r.is_int = 0; i++;
    if (!dig(s[i])) { r.end = i; return r; }
    for (int k = 0; k < NB; k++) if (dig(s[i])) {
      unsigned d = (unsigned)(s[i] - '0');
      if (d != 0) r.all_zero = 0;
      if (d != 0 || sig > 0) { if (sig >= 19 && d != 0) r.dropped_nonzero_19 = 1; sig++; }
      i++;
    }
  }
  if (s[i] == 'e' || s[i] == 'E') {
    r.is_int = 0; i++;
    if (s[i] == '+' || s[i] == '-') i++;
    if (!dig(s[i])) { r.end = i; return r; }
    for (int k = 0; k < NB; k++) if (dig(s[i])) i++;
  }
  r.valid = 1; r.end = i; return r;
}

char in_text[NB + 1];
void h_parseNumber(void) {
  /* the parser's private buffer: text, one delimiter byte, padding; the number starts at index 0 and pos_ is one past its first byte */
  uint8_t *buf = malloc(NB + PAD); __CPROVER_assume(buf != NULL);
  for (int k = 0; k < NB; k++) in_text[k] = (char)buf[k];
  in_text[NB] = 0;
  /* the text is cut off by a byte that cannot be part of a number within NB bytes (what follows a value: , ] } space, or the sentinel) */
  num_t w = spec_number((const char *)buf);
  __CPROVER_assume(w.end < NB);
  __CPROVER_assume(buf[0] == '-' || dig((char)buf[0]));        /* parseNumber is entered on '-' or a digit */
#ifdef SHAPE_ZEROS
  /* shape-restricted job: [-]0.000...0 followed by at most 3 arbitrary bytes (zeros written with many digits) */
  { size_t o = buf[0] == '-'; __CPROVER_assume(buf[o] == '0' && buf[o + 1] == '.');
    for (int k = 3; k < NB - 4; k++) __CPROVER_assume(buf[k] == '0'); }
#endif
#ifdef SHAPE_LONGINT
  /* shape-restricted job: [-] followed by at least NB-LONGINT_FREE-1 digits, then LONGINT_FREE arbitrary bytes (18..26-digit integers: the 19/20/21-digit
   * uint64 / int64 boundaries, and long integers followed by a fraction or an exponent) */
#ifndef LONGINT_FREE
#define LONGINT_FREE 9
#endif
  for (int k = 1; k < NB - LONGINT_FREE; k++) __CPROVER_assume(dig((char)buf[k]));
#endif
  Parser P; P.json_buf_ = buf; P.len_ = NB; P.pos_ = 1; P.err_ = kErrorNone;
  SAX sax; sax.kind = 0; sax.calls = 0;
  conv.calls = 0;
  (void)Parser_parseNumber(&P, &sax);
  if (!w.valid) {
    VASSERT(P.err_ == kParseErrorInvalidChar, "C04.grammar.reject: a text that is not an RFC 8259 number is rejected with the invalid-character error");
    VASSERT(P.pos_ <= NB, "C04.grammar.offset: the reported offset stays inside the text");
  } else {
    VASSERT(P.err_ == kErrorNone || (P.err_ == kParseErrorInfinity && conv.which == 2), "C04.grammar.accept: an RFC 8259 number is accepted (or rejected only by the infinity check of the fallback converter)");
    VASSERT(P.pos_ == w.end, "C04.grammar.end: pos_ lands on the first byte that cannot continue the number");
    VASSERT(sax.calls == 1, "C04.sax.once: exactly one value is delivered");
    if (w.is_int && !(w.neg && w.mag == 0)) {
      if (!w.neg && w.fits_u64) VASSERT(sax.kind == 2 && sax.u == w.mag, "C04.int.uint: a non-negative integer that fits in uint64 is stored as exactly that Uint");
      else if (w.neg && w.fits_u64 && w.mag <= ((uint64_t)1 << 63)) VASSERT(sax.kind == 1 && sax.i == (int64_t)(0 - w.mag), "C04.int.sint: a negative integer >= -2^63 is stored as exactly that Int");
      else VASSERT(sax.kind == 3, "C04.int.double: an integer outside the 64-bit ranges is stored as a double");
    } else if (!w.is_int) {
      VASSERT(sax.kind == 3, "C04.float.kind: a number with a fraction or an exponent is stored as a double");
    }
    if (w.all_zero && !w.is_int && conv.calls == 0) {
      union { double d; uint64_t u; } z; z.d = sax.d;
      VASSERT(z.u == (w.neg ? 0x8000000000000000ull : 0), "C04.zero.signed: a zero written with a fraction or exponent is +0.0 / -0.0 with the sign of the text");
    }
    if (conv.calls > 0) {
      VASSERT(!w.all_zero || conv.man == 0, "C04.book.zero: (bookkeeping) an all-zero text never yields a non-zero mantissa");
      VASSERT(conv.which == 3 || conv.sgn == (w.neg ? -1 : 1), "C04.book.sign: the sign handed to the converter is the sign of the text");
      VASSERT(!w.dropped_nonzero_19 || conv.trunc || conv.which != 2 /* the other two paths take no trunc flag; they are the next obligation */, "C04.book.trunc: when a non-zero digit beyond the 19 digits held in the mantissa was dropped, the converter is told so (trunc)");
      VASSERT(!((conv.which == 1 || conv.which == 3) && w.dropped_nonzero_19), "C04.book.exactpath: the exact-mantissa fast path is never taken after a non-zero digit was dropped");
    }
  }
  CANARY();
}

#ifdef UNIT_parseFloatingFast
int in_exp10; uint64_t in_man;
void h_parseFloatingFast(void) {
  Parser P; double d; int e; uint64_t m; in_exp10 = e; in_man = m;
  __CPROVER_assume((m >> 52) == 0 && e <= 22 + 15 && e >= -22);      /* the guard at the only call site (checked there) */
  (void)Parser_parseFloatingFast(&P, &d, e, m);
  CANARY();
}
#endif

#ifdef UNIT_EiselLemire
/* ---- AtofEiselLemire64: structural contract (normal finite result, defined shifts, table index), NOT its rounding ---- */
#include "gen/avx2.LeadingZeroes.inc"
#include "gen/kPow10M128Tab.inc"
#include "gen/MulU64.inc"
#include "gen/AtofEiselLemire64.inc"
#undef ParseFloatingNormalFast
#define ParseFloatingNormalFast ParseFloatingNormalFast_real
#include "gen/ParseFloatingNormalFast.inc"
void h_ParseFloatingNormalFast(void) { uint64_t r, m; int e, s; (void)ParseFloatingNormalFast_real(&r, e, m, s); CANARY(); }
void h_AtofEiselLemire64(void) { uint64_t m; int e, s; double d; (void)AtofEiselLemire64(m, e, s, &d); CANARY(); }
#endif

#ifdef UNIT_ShouldRoundup
/* ---- ShouldRoundup (big-decimal fallback): the round-half-to-even decision, for every digit string and position ----
 * spec (IEEE 754 roundTiesToEven applied to the decimal d[0..nd_total) with the point after position nd): compare the discarded
 * part with one half; "trunc" says that further non-zero digits were dropped when the Decimal was filled; the stored digits are
 * trimmed (the last stored digit is non-zero — representation invariant of Decimal, established by its constructor). */
#include "gen/DECIMAL_MAX_DNUM.inc"
#include "gen/Decimal.inc"
#include "gen/ShouldRoundup.inc"
int in_nd, in_pos;
void h_ShouldRoundup(void) {
  Decimal *d = malloc(sizeof(Decimal)); __CPROVER_assume(d != NULL);
  int nd; __CPROVER_assume(d->nd >= 0 && d->nd <= DECIMAL_MAX_DNUM && (d->trunc == 0 || d->trunc == 1)); in_nd = d->nd; in_pos = nd;
  __CPROVER_assume(nd >= -2 && nd <= DECIMAL_MAX_DNUM + 2);
  if (d->nd > 0) __CPROVER_assume(d->d[d->nd - 1] >= '1' && d->d[d->nd - 1] <= '9');      /* trimmed */
  if (nd >= 0 && nd < d->nd) __CPROVER_assume(d->d[nd] >= '0' && d->d[nd] <= '9');
  if (nd >= 1 && nd <= d->nd) __CPROVER_assume(d->d[nd - 1] >= '0' && d->d[nd - 1] <= '9');
  int want;
  if (nd < 0 || nd >= d->nd) want = 0;                      /* nothing (stored) is discarded: the code's convention is "no" */
  else {
    char first = d->d[nd];
    int cmp = first > '5' ? 1 : first < '5' ? -1 : ((nd + 1 < d->nd || d->trunc) ? 1 : 0);      /* discarded part vs one half */
    _Bool prev_odd = nd > 0 && ((d->d[nd - 1] - '0') & 1);
    want = cmp > 0 || (cmp == 0 && prev_odd);
  }
  int r = ShouldRoundup(d, nd);
  VASSERT((r != 0) == (want != 0), "C04.roundup.halfeven: round up exactly when the discarded digits exceed one half, or equal one half (nothing truncated) and the kept part is odd");
  CANARY();
}
#endif
