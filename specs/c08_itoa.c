/* C08: 64-bit integers print as their exact decimal — composition (U64toa, U64toa_17_20, I64toa, Utoa_8, Utoa_16) by
 * contracts over the 8-digit kernels. The kernels' meaning is established by exhaustive enumeration of the real compiled
 * code (native step c08_kernels, 10^8 values each): Utoa_8 writes the 8 zero-padded digits, UtoaSSE's lanes are those
 * digits, Utoa_1_8 writes the same digits without leading zeros. Here they are uninterpreted functions:
 *   DIG8(v, i)  the i-th (0 = most significant) of the 8 zero-padded decimal digits of v < 10^8   (0..9)
 *   ND8(v)      the number of significant digits of v < 10^8 (1..8)                                              */
#include "prelude.h"
#include "intrin.h"
#define sonic_align(x)
uint8_t __CPROVER_uninterpreted_dig8(uint32_t v, size_t i);
size_t __CPROVER_uninterpreted_nd8(uint32_t v);
#define DIG8(v, i) __CPROVER_uninterpreted_dig8((v), (i))
#define ND8(v) __CPROVER_uninterpreted_nd8((v))
size_t ghost_k;      /* ghost byte index instead of a quantifier */
size_t ghost_l;      /* ghost digit-lane index (0..7) of the vector kernel */

#include "gen/kDigits.inc"
#include "gen/Copy2Digs.inc"
#include "gen/itoa.macros.inc"
#include "gen/kVec16xAsc0.inc"

/* ---- kernel contracts (assumed here, established by the exhaustive native step) ---- */
char *Utoa_1_8(char *out, uint32_t val)
__CPROVER_requires(val < 100000000u && __CPROVER_w_ok(out, 8))
__CPROVER_assigns(__CPROVER_object_upto(out, 8))
__CPROVER_ensures(1 <= ND8(val) && ND8(val) <= 8 && __CPROVER_return_value == out + ND8(val))
__CPROVER_ensures(ghost_k >= ND8(val) || out[ghost_k] == (char)('0' + DIG8(val, 8 - ND8(val) + ghost_k)))
;
m128 UtoaSSE(uint32_t num)
__CPROVER_requires(num < 100000000u)
__CPROVER_assigns()
__CPROVER_ensures(ghost_l >= 8 || (__CPROVER_return_value.b[2 * ghost_l] == DIG8(num, ghost_l) && DIG8(num, ghost_l) <= 9 && __CPROVER_return_value.b[2 * ghost_l + 1] == 0))
;
#ifdef REAL_Utoa_1_8
#include "gen/Utoa_1_8.inc"
#endif
#include "gen/Utoa_8.inc"
#include "gen/Utoa_16.inc"
#include "gen/U64toa_17_20.inc"
#include "gen/U64toa.inc"
#include "gen/I64toa.inc"

uint64_t in_val; int64_t in_sval; uint32_t in_v32;

/* Arithmetic lemma used below (ASSUMED, not decided by CBMC: no installed back end decides 64-bit division bounds):
 * unsigned division by a positive constant is monotone, so a bound on the dividend bounds the quotient. The end points are
 * machine-checked in h_div_endpoints. */
#define LEMMA_DIV_MONOTONE(v) do { \
    if ((v) < 10000000000000000ull) __CPROVER_assume((v) / 100000000 < 100000000u); \
    __CPROVER_assume((v) / 10000000000000000ull <= 1844); \
    __CPROVER_assume(((v) % 10000000000000000ull) / 100000000 < 100000000u); } while (0)
void h_div_endpoints(void) {
  VASSERT((10000000000000000ull - 1) / 100000000 == 99999999u, "C08.lemma.endpoint1: (10^16 - 1) / 10^8 = 10^8 - 1");
  VASSERT(0xFFFFFFFFFFFFFFFFull / 10000000000000000ull == 1844, "C08.lemma.endpoint2: (2^64 - 1) / 10^16 = 1844");
  VASSERT(99999999ull * 100000000ull + 99999999ull == 9999999999999999ull, "C08.lemma.endpoint3: (10^8-1) * 10^8 + (10^8-1) = 10^16 - 1");
  CANARY();
}

/* Utoa_8 / Utoa_16: pack the digit lanes, add '0', one 16-byte store */
void h_Utoa_8(void) {
  uint32_t v; __CPROVER_assume(v < 100000000u); in_v32 = v;
  char *out = malloc(16); __CPROVER_assume(out != NULL);            /* extent: exactly the 16-byte store */
  __CPROVER_assume(ghost_k < 8 && ghost_l == ghost_k);
  char *e = Utoa_8(v, out);
  VASSERT(e == out + 8, "C08.utoa8.len: Utoa_8 advances by 8");
  VASSERT(out[ghost_k] == (char)('0' + DIG8(v, ghost_k)), "C08.utoa8.digits: byte k is '0' + the k-th digit lane");
  CANARY();
}
void h_Utoa_16(void) {
  uint64_t v; __CPROVER_assume(v < 10000000000000000ull); in_val = v;
  LEMMA_DIV_MONOTONE(v);
  char *out = malloc(16); __CPROVER_assume(out != NULL);
  __CPROVER_assume(ghost_k < 16 && ghost_l == (ghost_k & 7));
  char *e = Utoa_16(v, out);
  uint32_t hi = (uint32_t)(v / 100000000), lo = (uint32_t)(v % 100000000);
  VASSERT(e == out + 16, "C08.utoa16.len: Utoa_16 advances by 16");
  VASSERT(out[ghost_k] == (char)('0' + (ghost_k < 8 ? DIG8(hi, ghost_k) : DIG8(lo, ghost_k - 8))), "C08.utoa16.digits: 8 digits of val / 10^8 then 8 digits of val % 10^8");
  CANARY();
}
/* decimal digit j (0 = most significant) of a small number h < 10000 written with n digits */
static inline char small_digit(uint32_t h, unsigned n, unsigned j) {
  uint32_t p = (n - 1 - j) == 0 ? 1 : (n - 1 - j) == 1 ? 10 : (n - 1 - j) == 2 ? 100 : 1000;
  return (char)('0' + (h / p) % 10);
}
void h_U64toa(void) {
  uint64_t v; in_val = v;
  LEMMA_DIV_MONOTONE(v);
  char *out = malloc(24); __CPROVER_assume(out != NULL);            /* write extent of U64toa: at most 24 bytes */
  char *e = U64toa(out, v);
  size_t k = ghost_k;
  if (v < 100000000ull) {
    uint32_t w = (uint32_t)v;
    VASSERT(e == out + ND8(w), "C08.u64.len1: 1..8 digits");
    VASSERT(k >= ND8(w) || out[k] == (char)('0' + DIG8(w, 8 - ND8(w) + k)), "C08.u64.digits1: the canonical spelling of val");
  } else if (v < 10000000000000000ull) {
    uint32_t hi = (uint32_t)(v / 100000000), lo = (uint32_t)(v % 100000000);
    VASSERT(hi < 100000000u, "C08.u64.split2: val / 10^8 < 10^8 (by the monotonicity lemma)");
    VASSERT(e == out + ND8(hi) + 8, "C08.u64.len2: digits(val / 10^8) + 8");
    VASSERT(k >= ND8(hi) + 8 || (k >= ND8(hi) && ghost_l != k - ND8(hi)) || out[k] == (char)('0' + (k < ND8(hi) ? DIG8(hi, 8 - ND8(hi) + k) : DIG8(lo, k - ND8(hi)))),
            "C08.u64.digits2: canonical spelling of val / 10^8 followed by the 8 zero-padded digits of val % 10^8");
  } else {
    uint32_t hi = (uint32_t)(v / 10000000000000000ull); uint64_t lo = v % 10000000000000000ull;
    uint32_t lh = (uint32_t)(lo / 100000000), ll = (uint32_t)(lo % 100000000);
    VASSERT(hi <= 1844, "C08.u64.split3: val / 10^16 <= 1844 (by the monotonicity lemma)");
    __CPROVER_assume(hi >= 1);   /* val >= 10^16 implies val / 10^16 >= 1 (same lemma, lower end point) */
    unsigned n = hi < 10 ? 1 : hi < 100 ? 2 : hi < 1000 ? 3 : 4;
    VASSERT(e == out + n + 16, "C08.u64.len3: digits(val / 10^16) + 16, at most 20");
    VASSERT(k >= n + 16 || (k >= n && ghost_l != ((k - n) & 7)) || out[k] == (k < n ? small_digit(hi, n, (unsigned)k) : (char)('0' + (k < n + 8 ? DIG8(lh, k - n) : DIG8(ll, k - n - 8)))),
            "C08.u64.digits3: canonical spelling of val / 10^16 followed by the 16 zero-padded digits of val % 10^16");
  }
  CANARY();
}
/* U64toa by contract for the signed wrapper */
size_t __CPROVER_uninterpreted_u64len(uint64_t v);
char __CPROVER_uninterpreted_u64chr(uint64_t v, size_t k);
#ifdef UNIT_I64toa
/* U64toa by contract (its own proof is job C08.U64toa): some 1..20 characters, a function of the value only, inside 24 bytes */
char *U64toa(char *out, uint64_t val)
__CPROVER_requires(__CPROVER_w_ok(out, 24))
__CPROVER_assigns(__CPROVER_object_upto(out, 24))
__CPROVER_ensures(1 <= __CPROVER_uninterpreted_u64len(val) && __CPROVER_uninterpreted_u64len(val) <= 20)
__CPROVER_ensures(__CPROVER_return_value == out + __CPROVER_uninterpreted_u64len(val))
__CPROVER_ensures(ghost_k >= __CPROVER_uninterpreted_u64len(val) || out[ghost_k] == __CPROVER_uninterpreted_u64chr(val, ghost_k))
;
void h_I64toa(void) {
  int64_t v; in_sval = v;
  char *buf = malloc(25); __CPROVER_assume(buf != NULL);            /* sign + 24 */
  char *e = I64toa(buf, v);
  uint64_t mag = v < 0 ? (uint64_t)0 - (uint64_t)v : (uint64_t)v;   /* |v| computed without signed overflow */
  size_t neg = v < 0;
  VASSERT(e == buf + neg + __CPROVER_uninterpreted_u64len(mag), "C08.i64.len: optional '-' then the digits of |val|");
  VASSERT(!neg || buf[0] == '-', "C08.i64.sign: negatives start with a single '-'");
  VASSERT(ghost_k >= __CPROVER_uninterpreted_u64len(mag) || buf[neg + ghost_k] == __CPROVER_uninterpreted_u64chr(mag, ghost_k), "C08.i64.digits: the digits are U64toa(|val|), including |INT64_MIN| = 2^63");
  CANARY();
}
#endif
#ifdef REAL_Utoa_1_8
/* Utoa_1_8: memory safety / extent of the real body (its digits are the exhaustive native step) */
void h_Utoa_1_8_extent(void) {
  uint32_t v; __CPROVER_assume(v < 100000000u); in_v32 = v;
  char *out = malloc(8); __CPROVER_assume(out != NULL);
  char *e = Utoa_1_8(out, v);
  VASSERT(e > out && e <= out + 8, "C08.utoa18.extent: returns within out+1 .. out+8; writes only out[0..8)");
  CANARY();
}
#endif
