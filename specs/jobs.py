"""jobs.py — per property: the units sliced from /repo, the CBMC jobs, native supporting steps,
trusted base, assumptions and undecided residue that go into the evidence file."""

COMMON_TRUST = [
    "cbmc 6.11.0 (goto-cc C front end, goto-instrument DFCC contract instrumentation, MiniSat back end)",
    "tools/slice.py lowering rules (C++ -> C, textual; listed per unit under sliced_units.rules_fired)",
    "machine arithmetic: 64-bit two's complement, exact (not mathematical integers)",
    "GCC/Clang code generation for x86-64",
]
MODEL_TRUST = [
    "models/intrin.h: byte-lane models of the Intel intrinsics (sample-validated against the CPU each run)",
    "models/simdwrap.h: models of the sonic simd.h wrapper idioms (sample-validated against the real classes each run)",
]

PROPS = {}


def L(id, src, harness, units, **kw):
    d = dict(id=id, src=src, harness=harness, units=units, route="L")
    d.update(kw)
    return d

# ===================================================================================== C05
UNI = ["digit_to_val32", "hex_to_u32_nocheck", "codepoint_to_utf8", "handle_unicode_codepoint", "kEscapedMap"]
PROPS["C05"] = dict(
    level="other",
    jobs=[
        L("C05.hex_to_u32_nocheck", "c05_unicode.c", "h_hex_to_u32_nocheck", UNI, function="hex_to_u32_nocheck",
          replay="hex", claims="all 2^32 four-byte inputs: value / invalid flag; reads exactly 4 bytes; table index in range"),
        L("C05.codepoint_to_utf8", "c05_unicode.c", "h_codepoint_to_utf8", UNI, function="codepoint_to_utf8",
          replay="utf8", claims="all 2^32 code points: RFC 3629 bytes and length; 0 iff > 10FFFF; writes <= 4 bytes"),
        L("C05.handle_unicode_codepoint", "c05_unicode.c", "h_handle_unicode_codepoint", UNI, function="handle_unicode_codepoint",
          replay="uesc", unwind=13, claims="all 12-byte inputs starting with \\u: accept iff RFC 8259 accepts; advance; UTF-8 bytes; reads <= 12, writes <= 4"),
        L("C05.kEscapedMap", "c05_unicode.c", "h_kEscapedMap", UNI, function="kEscapedMap",
          replay="escmap", claims="all 256 bytes: entry != 0 iff one of the eight escapes, and equals its meaning"),
    ],
    trusted_base=COMMON_TRUST,
    assumptions=[],
    undecided=[],
    explanation="",
)
