"""jobs.py — per property: the units sliced from /repo, the CBMC jobs, native supporting steps,
trusted base, assumptions and undecided residue that go into the evidence file."""

COMMON_TRUST = [
    "cbmc 6.11.0 (goto-cc C front end, goto-instrument DFCC contract instrumentation, MiniSat back end)",
    "tools/slice.py lowering rules (C++ -> C, textual; listed per unit under sliced_units.rules_fired)",
    "machine arithmetic: 64-bit two's complement, exact (not mathematical integers)",
    "GCC/Clang code generation for x86-64",
]
MODEL_TRUST = [
    "models/intrin.h: byte-lane models of the Intel intrinsics (sample-validated against the CPU each run)",
    "models/simdwrap.h: models of the sonic simd.h wrapper idioms (sample-validated against the real classes each run)",
]

PROPS = {}


def L(id, src, harness, units, **kw):
    d = dict(id=id, src=src, harness=harness, units=units, route="L")
    d.update(kw)
    return d

# ===================================================================================== C05
UNI = ["digit_to_val32", "hex_to_u32_nocheck", "codepoint_to_utf8", "handle_unicode_codepoint", "kEscapedMap"]
PROPS["C05"] = dict(
    level="other",
    jobs=[
        L("C05.hex_to_u32_nocheck", "c05_unicode.c", "h_hex_to_u32_nocheck", UNI, function="hex_to_u32_nocheck",
          replay="hex", claims="all 2^32 four-byte inputs: value / invalid flag; reads exactly 4 bytes; table index in range"),
        L("C05.codepoint_to_utf8", "c05_unicode.c", "h_codepoint_to_utf8", UNI, function="codepoint_to_utf8",
          replay="utf8", claims="all 2^32 code points: RFC 3629 bytes and length; 0 iff > 10FFFF; writes <= 4 bytes"),
        L("C05.handle_unicode_codepoint", "c05_unicode.c", "h_handle_unicode_codepoint", UNI, function="handle_unicode_codepoint",
          replay="uesc", unwind=13, claims="all 12-byte inputs starting with \\u: accept iff RFC 8259 accepts; advance; UTF-8 bytes; reads <= 12, writes <= 4"),
        L("C05.kEscapedMap", "c05_unicode.c", "h_kEscapedMap", UNI, function="kEscapedMap",
          replay="escmap", claims="all 256 bytes: entry != 0 iff one of the eight escapes, and equals its meaning"),
    ],
    trusted_base=COMMON_TRUST,
    assumptions=[],
    undecided=[],
    explanation="",
)


# ===================================================================================== C11
def arch_units(arch):
    return ["%s.%s" % (arch, f) for f in ("TrailingZeroes", "LeadingZeroes", "CountOnes", "PrefixXor")]

ARCHS = (("avx2", "VEC_LEN=32"), ("sse", "VEC_LEN=16"))
C11_JOBS = []
for arch, vdef in ARCHS:
    base = arch_units(arch) + ["IsSpace", arch + ".GetNonSpaceBits", "skip_space_safe"]
    C11_JOBS.append(dict(
        id="C11.GetNonSpaceBits@" + arch, src="c11_space.c", harness="h_GetNonSpaceBits", units=base, defs=[vdef], arch=arch,
        route="L", function="GetNonSpaceBits", enforce="GetNonSpaceBits", unwind=65,
        claims="64 symbolic bytes: bit i set iff byte i is not RFC 8259 whitespace (ghost index); reads exactly 64 bytes"))
C11_JOBS.append(dict(
    id="C11.skip_space_safe", src="c11_space.c", harness="h_skip_space_safe", units=arch_units("avx2") + ["IsSpace", "avx2.GetNonSpaceBits", "skip_space_safe"],
    defs=["VEC_LEN=32"], arch="avx2", route="U", function="skip_space_safe", enforce="skip_space_safe", replace=["GetNonSpaceBits"],
    loop_contracts=True, expect_loops=2, cbmc_unwindset="skip_space_safe_wrapped_for_contract_checking.0:2", timeout=900, replay="skip_space_safe",
    claims="any len<=2^31-1 incl. 0, any pos<=len, any well-formed cache: reads stay in [data,data+len); pos monotone, pos'<=len; skipped bytes are whitespace; returned byte is the first non-space; cache stays consistent (shared body: identical for both arches)"))
PROPS["C11"] = dict(
    level="other", jobs=C11_JOBS, trusted_base=COMMON_TRUST + MODEL_TRUST, assumptions=[], undecided=[], explanation="")
