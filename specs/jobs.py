"""jobs.py — per property: the units sliced from /repo, the CBMC jobs, native supporting steps,
trusted base, assumptions and undecided residue that go into the evidence file."""

COMMON_TRUST = [
    "cbmc 6.11.0 (goto-cc C front end, goto-instrument DFCC contract instrumentation, MiniSat back end)",
    "tools/slice.py lowering rules (C++ -> C, textual; listed per unit under sliced_units.rules_fired)",
    "machine arithmetic: 64-bit two's complement, exact (not mathematical integers)",
    "GCC/Clang code generation for x86-64",
]
MODEL_TRUST = [
    "models/intrin.h: byte-lane models of the Intel intrinsics (sample-validated against the CPU each run)",
    "models/simdwrap.h: models of the sonic simd.h wrapper idioms (sample-validated against the real classes each run)",
]

PROPS = {}


def L(id, src, harness, units, **kw):
    d = dict(id=id, src=src, harness=harness, units=units, route="L")
    d.update(kw)
    return d

# ===================================================================================== C05
UNI = ["digit_to_val32", "hex_to_u32_nocheck", "codepoint_to_utf8", "handle_unicode_codepoint", "kEscapedMap"]
PROPS["C05"] = dict(
    level="other",
    jobs=[
        L("C05.hex_to_u32_nocheck", "c05_unicode.c", "h_hex_to_u32_nocheck", UNI, function="hex_to_u32_nocheck",
          replay="hex", claims="all 2^32 four-byte inputs: value / invalid flag; reads exactly 4 bytes; table index in range"),
        L("C05.codepoint_to_utf8", "c05_unicode.c", "h_codepoint_to_utf8", UNI, function="codepoint_to_utf8",
          replay="utf8", claims="all 2^32 code points: RFC 3629 bytes and length; 0 iff > 10FFFF; writes <= 4 bytes"),
        L("C05.handle_unicode_codepoint", "c05_unicode.c", "h_handle_unicode_codepoint", UNI, function="handle_unicode_codepoint",
          replay="uesc", unwind=13, claims="all 12-byte inputs starting with \\u: accept iff RFC 8259 accepts; advance; UTF-8 bytes; reads <= 12, writes <= 4"),
        L("C05.kEscapedMap", "c05_unicode.c", "h_kEscapedMap", UNI, function="kEscapedMap",
          replay="escmap", claims="all 256 bytes: entry != 0 iff one of the eight escapes, and equals its meaning"),
    ],
    trusted_base=COMMON_TRUST,
    assumptions=[],
    undecided=[],
    explanation="",
)


# ===================================================================================== C11
def arch_units(arch):
    return ["%s.%s" % (arch, f) for f in ("TrailingZeroes", "LeadingZeroes", "CountOnes", "PrefixXor")]

ARCHS = (("avx2", "VEC_LEN=32"), ("sse", "VEC_LEN=16"))
ESC = ["GetEscaped_16", "GetEscaped_32", "GetEscaped_64"]
SKIP_LEAVES = ["GetNextToken_3", "GetNextToken_4", "SkipString", "GetStringBits", "SkipContainer", "EqBytes4", "SkipLiteral"]
# pointer arithmetic one-past-the-end in a comparison that is never dereferenced: reported as an observation (DESIGN section 3)
OBS_SKIPLITERAL = [(r"pointer (relation|arithmetic): pointer outside object bounds in start \+", "SkipLiteral")]
C11_JOBS = []
for arch, vdef in ARCHS:
    base = arch_units(arch) + ["IsSpace", arch + ".GetNonSpaceBits", "skip_space_safe"]
    sk = arch_units(arch) + ["IsSpace"] + ESC + SKIP_LEAVES
    C11_JOBS.append(dict(
        id="C11.GetNonSpaceBits@" + arch, src="c11_space.c", harness="h_GetNonSpaceBits", units=base, defs=[vdef], arch=arch,
        route="L", function="GetNonSpaceBits", enforce="GetNonSpaceBits", unwind=65,
        claims="64 symbolic bytes: bit i set iff byte i is not RFC 8259 whitespace (ghost index); reads exactly 64 bytes"))
    for n in (3, 4):
        C11_JOBS.append(dict(
            id="C11.GetNextToken_%d@%s" % (n, arch), src="c11_skip.c", harness="h_GetNextToken_%d" % n, units=sk,
            defs=[vdef, "UNIT_GetNextToken"], arch=arch, route="U", function="GetNextToken<%d>" % n, enforce="GetNextToken_%d" % n,
            unwindset="GetNextToken_%d.0:%d,GetNextToken_%d.2:%d" % (n, n, n, n), loop_contracts=True, expect_loops=2, timeout=900,
            claims="any len, any pos<=len: reads stay inside the input; pos monotone <= len; returns the first token byte at/after pos (ghost index) or 0 with pos'=len"))
    C11_JOBS.append(dict(
        id="C11.SkipString@" + arch, src="c11_skip.c", harness="h_SkipString", units=sk, defs=[vdef, "UNIT_SkipString"], arch=arch,
        route="U", function="SkipString", enforce="SkipString", loop_contracts=True, expect_loops=2, timeout=900,
        claims="any len, any pos<=len: reads stay inside the input; success => pos' <= len and data[pos'-1] is a quote; failure => pos' <= len+1"))
    C11_JOBS.append(dict(
        id="C11.GetStringBits@" + arch, src="c11_skip.c", harness="h_GetStringBits", units=sk, defs=[vdef, "UNIT_SkipContainer"], arch=arch,
        route="L", function="GetStringBits", enforce="GetStringBits",
        claims="reads exactly 64 bytes; writes only the two carried state words"))
C11_JOBS.append(dict(
    id="C11.skip_space_safe", src="c11_space.c", harness="h_skip_space_safe", units=arch_units("avx2") + ["IsSpace", "avx2.GetNonSpaceBits", "skip_space_safe"],
    defs=["VEC_LEN=32"], arch="avx2", route="U", function="skip_space_safe", enforce="skip_space_safe", replace=["GetNonSpaceBits"],
    loop_contracts=True, expect_loops=2, cbmc_unwindset="skip_space_safe_wrapped_for_contract_checking.0:2", timeout=900, replay="skip_space_safe",
    claims="any len<=2^31-1 incl. 0, any pos<=len, any well-formed cache: reads stay in [data,data+len); pos monotone, pos'<=len; skipped bytes are whitespace; returned byte is the first non-space; cache stays consistent (shared body: identical for both arches)"))
C11_JOBS.append(dict(
    id="C11.SkipLiteral", src="c11_skip.c", harness="h_SkipLiteral", units=arch_units("avx2") + ["IsSpace"] + ESC + SKIP_LEAVES,
    defs=["VEC_LEN=32", "UNIT_SkipLiteral"], arch="avx2", route="L", function="SkipLiteral+EqBytes4", enforce="SkipLiteral",
    claims="any len, 1<=pos<=len: the 4-byte compare reads only inside the input (memcpy source region readable); pos' <= len; advance 3 (true/null) or 4 (false). Pointer checks are off inside SkipLiteral itself (it only forms and compares start+4/start+5, see observation job)"))
C11_JOBS.append(dict(
    id="C11.SkipLiteral.observe", src="c11_skip.c", harness="h_SkipLiteral", units=arch_units("avx2") + ["IsSpace"] + ESC + SKIP_LEAVES,
    defs=["VEC_LEN=32", "UNIT_SkipLiteral", "OBSERVE_ALL"], arch="avx2", route="O", function="SkipLiteral", enforce="SkipLiteral", observe=OBS_SKIPLITERAL,
    claims="observation only: with all checks on, CBMC flags start+4/start+5 as pointers past one-past-the-end (compared, never dereferenced)"))
SCANNER_UNITS = arch_units("avx2") + ["IsSpace"] + ESC + SKIP_LEAVES + ["skip_space_safe", "SkipArray", "SkipObject", "SkipNumber",
    "SkipScanner.fields", "SkipScanner.SkipSpaceSafe", "SkipScanner.GetArrayElem", "SkipScanner.SkipOne"]
CALLEES = ["skip_space_safe", "GetNextToken_3", "GetNextToken_4", "SkipString", "SkipContainer", "SkipLiteral"]
C11_JOBS.append(dict(
    id="C11.SkipScanner.SkipOne", src="c11_scanner.c", harness="h_SkipOne", units=SCANNER_UNITS, defs=["VEC_LEN=32"], arch="avx2",
    route="L", function="SkipScanner::SkipOne (+SkipArray/SkipObject/SkipNumber/SkipSpaceSafe)", enforce="SkipScanner_SkipOne", replace=CALLEES, object_bits=12,
    claims="against callee contracts: every callee precondition holds at its call site; result >= 0 => start < pos' <= len (slice inside the input); scanner state stays well-formed"))
C11_JOBS.append(dict(
    id="C11.SkipScanner.GetArrayElem", src="c11_scanner.c", harness="h_GetArrayElem", units=SCANNER_UNITS, defs=["VEC_LEN=32"], arch="avx2",
    route="U", function="SkipScanner::GetArrayElem", enforce="SkipScanner_GetArrayElem", replace=CALLEES, loop_contracts=True, expect_loops=1, object_bits=12,
    claims="against callee contracts, any index: callee preconditions hold; pos monotone; success => pos' <= len; scanner state stays well-formed"))
PROPS["C11"] = dict(
    level="other", jobs=C11_JOBS, trusted_base=COMMON_TRUST + MODEL_TRUST, assumptions=[], undecided=[], explanation="")
