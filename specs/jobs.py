"""jobs.py — per property: the units sliced from /repo, the CBMC jobs, native supporting steps,
trusted base, assumptions and undecided residue that go into the evidence file."""

COMMON_TRUST = [
    "cbmc 6.11.0 (goto-cc C front end, goto-instrument DFCC contract instrumentation, MiniSat back end)",
    "tools/slice.py lowering rules (C++ -> C, textual; listed per unit under sliced_units.rules_fired)",
    "machine arithmetic: 64-bit two's complement, exact (not mathematical integers)",
    "GCC/Clang code generation for x86-64",
]
MODEL_TRUST = [
    "models/intrin.h: byte-lane models of the Intel intrinsics (sample-validated against the CPU each run)",
    "models/simdwrap.h: models of the sonic simd.h wrapper idioms (sample-validated against the real classes each run)",
]

PROPS = {}


def L(id, src, harness, units, **kw):
    d = dict(id=id, src=src, harness=harness, units=units, route="L")
    d.update(kw)
    return d

# ===================================================================================== C05
UNI = ["digit_to_val32", "hex_to_u32_nocheck", "codepoint_to_utf8", "handle_unicode_codepoint", "kEscapedMap"]
PROPS["C05"] = dict(
    level="other",
    jobs=[
        L("C05.hex_to_u32_nocheck", "c05_unicode.c", "h_hex_to_u32_nocheck", UNI, function="hex_to_u32_nocheck",
          replay="hex", claims="all 2^32 four-byte inputs: value / invalid flag; reads exactly 4 bytes; table index in range"),
        L("C05.codepoint_to_utf8", "c05_unicode.c", "h_codepoint_to_utf8", UNI, function="codepoint_to_utf8",
          replay="utf8", claims="all 2^32 code points: RFC 3629 bytes and length; 0 iff > 10FFFF; writes <= 4 bytes"),
        L("C05.handle_unicode_codepoint", "c05_unicode.c", "h_handle_unicode_codepoint", UNI, function="handle_unicode_codepoint",
          replay="uesc", unwind=13, claims="all 12-byte inputs starting with \\u: accept iff RFC 8259 accepts; advance; UTF-8 bytes; reads <= 12, writes <= 4"),
        L("C05.kEscapedMap", "c05_unicode.c", "h_kEscapedMap", UNI, function="kEscapedMap",
          replay="escmap", claims="all 256 bytes: entry != 0 iff one of the eight escapes, and equals its meaning"),
    ],
    trusted_base=COMMON_TRUST + MODEL_TRUST,
    assumptions=[],
    undecided=[],
    explanation="",
)
for arch, vdef in (("avx2", "VEC_LEN=32"), ("sse", "VEC_LEN=16")):
    sbu = ["%s.%s" % (arch, f) for f in ("TrailingZeroes", "LeadingZeroes", "CountOnes", "PrefixXor")] + UNI + \
          ["%s.StringBlock.%s" % (arch, m) for m in ("fields", "HasQuoteFirst", "HasBackslash", "HasUnescaped", "QuoteIndex", "BsIndex", "UnescapedIndex", "Find")] + ["parseStringInplace", "parseStringInplace.classify"]
    PROPS["C05"]["jobs"].append(dict(
        id="C05.StringBlock@" + arch, src="c05_string.c", harness="h_StringBlock", units=sbu, defs=[vdef], arch=arch, route="L", function="StringBlock::Find + predicates",
        unwind=34, replay="stringblock", timeout=900,
        claims="all VEC_LEN-byte blocks: the three masks equal the per-byte predicates (backslash, quote, < 0x20); HasQuoteFirst/HasBackslash/HasUnescaped/QuoteIndex/BsIndex describe the first special byte; reads exactly VEC_LEN bytes"))
    PROPS["C05"]["jobs"].append(dict(
        id="C05.parseStringInplace.classify@" + arch, src="c05_string.c", harness="h_classify", units=sbu, defs=[vdef], arch=arch, route="L",
        function="parseStringInplace: second-phase block classification (verbatim fragment)", unwind=34, replay="stringblock", timeout=600,
        claims="all VEC_LEN-byte blocks: the three masks built inline under find_and_move equal the per-byte predicates for every lane (the loop around it is undecided)"))
    # parseStringInplace (h_parseStringInplace in specs/c05_string.c): bounded jobs at raw length 8, VEC_LEN+4 and VEC_LEN+8 did not
    # finish within 15-25 min; no job runs it (DESIGN section 12).



# ===================================================================================== C11
def arch_units(arch):
    return ["%s.%s" % (arch, f) for f in ("TrailingZeroes", "LeadingZeroes", "CountOnes", "PrefixXor")]

ARCHS = (("avx2", "VEC_LEN=32"), ("sse", "VEC_LEN=16"))
ESC = ["GetEscaped_16", "GetEscaped_32", "GetEscaped_64"]
SKIP_LEAVES = ["GetNextToken_3", "GetNextToken_4", "SkipString", "GetStringBits", "SkipContainer", "EqBytes4", "SkipLiteral"]
# pointer arithmetic one-past-the-end in a comparison that is never dereferenced: reported as an observation (DESIGN section 3)
OBS_SKIPLITERAL = [(r"pointer (relation|arithmetic): pointer outside object bounds in start \+", "SkipLiteral")]
C11_JOBS = []
for arch, vdef in ARCHS:
    base = arch_units(arch) + ["IsSpace", arch + ".GetNonSpaceBits", "skip_space_safe"]
    sk = arch_units(arch) + ["IsSpace"] + ESC + SKIP_LEAVES
    C11_JOBS.append(dict(
        id="C11.GetNonSpaceBits@" + arch, src="c11_space.c", harness="h_GetNonSpaceBits", units=base, defs=[vdef], arch=arch,
        route="L", function="GetNonSpaceBits", enforce="GetNonSpaceBits", unwind=65,
        claims="64 symbolic bytes: bit i set iff byte i is not RFC 8259 whitespace (ghost index); reads exactly 64 bytes"))
    for n in (3, 4):
        C11_JOBS.append(dict(
            id="C11.GetNextToken_%d@%s" % (n, arch), src="c11_skip.c", harness="h_GetNextToken_%d" % n, units=sk,
            defs=[vdef, "UNIT_GetNextToken"], arch=arch, route="U", function="GetNextToken<%d>" % n, enforce="GetNextToken_%d" % n,
            unwindset="GetNextToken_%d.0:%d,GetNextToken_%d.2:%d" % (n, n, n, n), loop_contracts=True, expect_loops=2, timeout=900,
            claims="any len, any pos<=len: reads stay inside the input; pos monotone <= len; returns the first token byte at/after pos (ghost index) or 0 with pos'=len"))
    C11_JOBS.append(dict(
        id="C11.SkipString@" + arch, src="c11_skip.c", harness="h_SkipString", units=sk, defs=[vdef, "UNIT_SkipString"], arch=arch,
        route="U", function="SkipString", enforce="SkipString", loop_contracts=True, expect_loops=2, timeout=900,
        claims="any len, any pos<=len: reads stay inside the input; success => pos' <= len and data[pos'-1] is a quote; failure => pos' <= len+1"))
    C11_JOBS.append(dict(
        id="C11.GetStringBits@" + arch, src="c11_skip.c", harness="h_GetStringBits", units=sk, defs=[vdef, "UNIT_SkipContainer"], arch=arch,
        route="L", function="GetStringBits", enforce="GetStringBits",
        claims="reads exactly 64 bytes; writes only the two carried state words"))
for arch, vdef in ARCHS:
    C11_JOBS.append(dict(
        id="C11.SkipContainer@" + arch, src="c11_skip.c", harness="h_SkipContainer", units=arch_units(arch) + ["IsSpace"] + ESC + SKIP_LEAVES, defs=[vdef, "UNIT_SkipContainer"], arch=arch,
        route="U", function="SkipContainer", enforce="SkipContainer", replace=["GetStringBits", "memcpy"], loop_contracts=True, expect_loops=3, timeout=2400, thorough_only=True,
        claims="any len <= 2^31-65, any pos <= len: block reads stay inside the input; the tail is copied into the zeroed 64-byte buffer with len-pos < 64; closed => old pos < pos' <= len; never closed => pos' <= len (thorough tier only: about 20 min per instantiation)"))
for n in (16, 32, 64):
    C11_JOBS.append(dict(
        id="C11.GetEscaped_%d" % n, src="c11_skip.c", harness="h_GetEscaped", units=arch_units("avx2") + ["IsSpace"] + ESC + SKIP_LEAVES, defs=["VEC_LEN=32", "UNIT_GetEscaped", "GE_N=%d" % n], arch="avx2",
        route="L", function="GetEscaped<%d>" % n, unwind=66, replay="getescaped", timeout=600,
        claims="all backslash masks and both carry-in values: the escaped-character mask and the carry-out equal a scalar left-to-right reference"))
C11_JOBS.append(dict(
    id="C11.skip_space_safe", src="c11_space.c", harness="h_skip_space_safe", units=arch_units("avx2") + ["IsSpace", "avx2.GetNonSpaceBits", "skip_space_safe"],
    defs=["VEC_LEN=32"], arch="avx2", route="U", function="skip_space_safe", enforce="skip_space_safe", replace=["GetNonSpaceBits"],
    loop_contracts=True, expect_loops=2, cbmc_unwindset="skip_space_safe_wrapped_for_contract_checking.0:2", timeout=900, replay="skip_space_safe",
    claims="any len<=2^31-1 incl. 0, any pos<=len, any well-formed cache: reads stay in [data,data+len); pos monotone, pos'<=len; skipped bytes are whitespace; returned byte is the first non-space; cache stays consistent (shared body: identical for both arches)"))
C11_JOBS.append(dict(
    id="C11.SkipLiteral", src="c11_skip.c", harness="h_SkipLiteral", units=arch_units("avx2") + ["IsSpace"] + ESC + SKIP_LEAVES,
    defs=["VEC_LEN=32", "UNIT_SkipLiteral"], arch="avx2", route="L", function="SkipLiteral+EqBytes4", enforce="SkipLiteral",
    claims="any len, 1<=pos<=len: the 4-byte compare reads only inside the input (memcpy source region readable); pos' <= len; advance 3 (true/null) or 4 (false). Pointer checks are off inside SkipLiteral itself (it only forms and compares start+4/start+5, see observation job)"))
C11_JOBS.append(dict(
    id="C11.SkipLiteral.observe", src="c11_skip.c", harness="h_SkipLiteral", units=arch_units("avx2") + ["IsSpace"] + ESC + SKIP_LEAVES,
    defs=["VEC_LEN=32", "UNIT_SkipLiteral", "OBSERVE_ALL"], arch="avx2", route="O", function="SkipLiteral", enforce="SkipLiteral", observe=OBS_SKIPLITERAL,
    claims="observation only: with all checks on, CBMC flags start+4/start+5 as pointers past one-past-the-end (compared, never dereferenced)"))
SCANNER_UNITS = arch_units("avx2") + ["IsSpace"] + ESC + SKIP_LEAVES + ["skip_space_safe", "SkipArray", "SkipObject", "SkipNumber",
    "SkipScanner.fields", "SkipScanner.SkipSpaceSafe", "SkipScanner.GetArrayElem", "SkipScanner.SkipOne"]
CALLEES = ["skip_space_safe", "GetNextToken_3", "GetNextToken_4", "SkipString", "SkipContainer", "SkipLiteral"]
C11_JOBS.append(dict(
    id="C11.SkipScanner.SkipOne", src="c11_scanner.c", harness="h_SkipOne", units=SCANNER_UNITS, defs=["VEC_LEN=32"], arch="avx2",
    route="L", function="SkipScanner::SkipOne (+SkipArray/SkipObject/SkipNumber/SkipSpaceSafe)", enforce="SkipScanner_SkipOne", replace=CALLEES, object_bits=12,
    claims="against callee contracts: every callee precondition holds at its call site; result >= 0 => start < pos' <= len (slice inside the input); scanner state stays well-formed"))
C11_JOBS.append(dict(
    id="C11.SkipScanner.GetArrayElem", src="c11_scanner.c", harness="h_GetArrayElem", units=SCANNER_UNITS, defs=["VEC_LEN=32"], arch="avx2",
    route="U", function="SkipScanner::GetArrayElem", enforce="SkipScanner_GetArrayElem", replace=CALLEES, loop_contracts=True, expect_loops=1, object_bits=12,
    claims="against callee contracts, any index: callee preconditions hold; pos monotone; success => pos' <= len; scanner state stays well-formed"))
C11_JOBS.append(dict(
    id="C11.GetOnDemand.driver", src="c11_driver.c", harness="h_GetOnDemand", units=SCANNER_UNITS + ["SkipScanner.GetOnDemand"], defs=["VEC_LEN=32"], arch="avx2",
    route="B(path<=3, back-edges<=2)", bound="path length <= 3; each goto back-edge (query, obj_key) traversed at most 2 times; any len <= 2^31-65",
    function="SkipScanner::GetOnDemand (driver) + wrapper slice construction", unwind_paths=3, cbmc_unwindset="h_GetOnDemand.0:4", object_bits=12, timeout=1500, replay="ondemand", solver="cadical",
    flags=["--no-malloc-may-fail"], gi_flags=["--no-malloc-may-fail"],
    claims="bounded, plain CBMC, every scanner callee replaced by the executable form of its own contract (generated by tools/slice.py from the contract text enforced in the callee's job): every callee precondition holds at its call site (incl. the key buffer handed to parseStringInplace: closing quote 32 bytes before its end); the driver's own reads (memcpy of the raw key, memcmp with the path key) stay inside the input / key buffer; a non-negative result is a slice start with start < pos' <= len"))
PROPS["C11"] = dict(
    level="other", jobs=C11_JOBS, trusted_base=COMMON_TRUST + MODEL_TRUST, assumptions=[], undecided=[], explanation="")


# ===================================================================================== C14
C14_UNITS = arch_units("avx2") + ["in_page_32", "is_eq_lt_32_cross_page", "is_eq_lt_32", "cmp_lt_32", "avx2.InlinedMemcmpEq", "avx2.InlinedMemcmp"]
C14_SSE_UNITS = arch_units("sse") + ["sse.InlinedMemcmpEq", "sse.InlinedMemcmp"]
UF = ["--arrays-uf-always"]
OBS_MOVEMASK = [(r"arithmetic overflow on signed \+ in return_value__mm256_movemask_epi8", None)]
def c14(id, harness, **kw):
    d = dict(id="C14." + id, src="c14_memcmp.c", harness=harness, units=C14_UNITS, defs=["VEC_LEN=32"], arch="avx2", route="L", timeout=900)
    d.update(kw)
    return d
C14_JOBS = [
    c14("in_page_32", "h_in_page_32", function="in_page_32", replay="in_page_32",
        claims="all page offsets of both pointers: guard true => both 32-byte windows stay inside their page objects"),
    c14("in_page_32.sanitize", "h_in_page_32", function="in_page_32 (SONIC_USE_SANITIZE)", defs=["VEC_LEN=32", "SANITIZE_PATH"],
        claims="sanitizer build: the guard is constantly false, so the over-reading path is never taken"),
    c14("is_eq_lt_32", "h_is_eq_lt_32", function="is_eq_lt_32", unwind=33, flags=UF, replay="memcmp_short",
        claims="all 1<=s<32, all contents, all offsets in two-page objects: true iff the first s bytes agree; no read outside the page objects"),
    c14("is_eq_lt_32.sanitize", "h_is_eq_lt_32", function="is_eq_lt_32 (SONIC_USE_SANITIZE)", defs=["VEC_LEN=32", "SANITIZE_PATH"], unwind=33, flags=UF,
        claims="sanitizer build: same equivalence through the cross-page fallback only"),
    c14("is_eq_lt_32_cross_page", "h_is_eq_lt_32_cross_page", function="is_eq_lt_32_cross_page", unwind=33, flags=UF,
        claims="fallback: true iff the first s bytes agree; reads only [p, p+s)"),
    c14("cmp_lt_32", "h_cmp_lt_32", function="cmp_lt_32", unwind=33, flags=UF, replay="memcmp_short",
        claims="all 1<=s<32: sign equals memcmp; no read outside the page objects"),
    c14("cmp_lt_32.sanitize", "h_cmp_lt_32", function="cmp_lt_32 (SONIC_USE_SANITIZE)", defs=["VEC_LEN=32", "SANITIZE_PATH"], unwind=33, flags=UF,
        claims="sanitizer build: sign equals memcmp via libc memcmp only"),
    c14("InlinedMemcmpEq.long", "h_InlinedMemcmpEq", function="InlinedMemcmpEq", defs=["VEC_LEN=32", "LONG_KEYS"], route="U", enforce="InlinedMemcmpEq",
        replace=["is_eq_lt_32"], loop_contracts=True, expect_loops=1,
        claims="any s>=32 on heap blocks of exactly s bytes: no over-read; true => bytes equal at every index (ghost); ranges built equal => true"),
    c14("InlinedMemcmp.long", "h_InlinedMemcmp", function="InlinedMemcmp", defs=["VEC_LEN=32", "LONG_KEYS"], route="U", enforce="InlinedMemcmp",
        replace=["cmp_lt_32"], loop_contracts=True, expect_loops=1, solver="cadical",
        claims="any s>=32 on exact-size blocks: no over-read; 0 => bytes equal at every index (converse: bounded sign job)"),
    c14("InlinedMemcmp.sign", "h_InlinedMemcmp_sign", function="InlinedMemcmp", defs=["VEC_LEN=32", "LONG_KEYS", "SMAX=159"], route="B(32<=s<=159)", bound="32 <= s <= 159",
        cbmc_unwindset="h_InlinedMemcmp_sign.0:160,h_InlinedMemcmp_sign.1:160,InlinedMemcmp.0:5", unwind=34, replay="memcmp_long",
        claims="bounded: sign equals memcmp for every length up to 4 blocks + 31 and every mismatch position"),
    c14("InlinedMemcmpEq.exact", "h_InlinedMemcmpEq_exact", function="InlinedMemcmpEq", defs=["VEC_LEN=32", "LONG_KEYS", "SMAX=159"], route="B(32<=s<=159)", bound="32 <= s <= 159",
        cbmc_unwindset="h_InlinedMemcmpEq_exact.0:160,h_InlinedMemcmpEq_exact.1:160,InlinedMemcmpEq.0:5", unwind=34, replay="memcmp_long",
        claims="bounded: result is true exactly when all s bytes agree, for every length up to 4 blocks + 31 and every mismatch position"),
    c14("InlinedMemcmpEq.short", "h_InlinedMemcmpEq_short", function="InlinedMemcmpEq (s<32 dispatch)", defs=["VEC_LEN=32", "SHORT_DISPATCH"], replace=["is_eq_lt_32"], flags=UF, cbmc_unwindset="InlinedMemcmpEq.0:2",
        claims="s==0 => true; 1<=s<32 => exactly is_eq_lt_32(a,b,s) (kernel as uninterpreted function; its own proof is C14.is_eq_lt_32)"),
    c14("InlinedMemcmp.short", "h_InlinedMemcmp_short", function="InlinedMemcmp (s<32 dispatch)", defs=["VEC_LEN=32", "SHORT_DISPATCH"], replace=["cmp_lt_32"], flags=UF, cbmc_unwindset="InlinedMemcmp.0:2",
        claims="s==0 => 0; 1<=s<32 => exactly cmp_lt_32(l,r,s)"),
    c14("movemask.observe", "h_is_eq_lt_32", function="is_eq_lt_32", defs=["VEC_LEN=32", "OBSERVE_ALL"], route="O", unwind=33, flags=UF, observe=OBS_MOVEMASK,
        claims="observation only: movemask(...) + 1 is int arithmetic that wraps when lanes 0..30 agree and lane 31 differs"),
    dict(id="C14.sse.forwarders", src="c14_memcmp.c", harness="h_sse_forwarders", units=C14_SSE_UNITS, defs=["VEC_LEN=16"], arch="sse", route="L",
         function="sse::InlinedMemcmpEq / sse::InlinedMemcmp", replace=["memcmp"],
         claims="the sse bodies are memcmp(a,b,s)==0 and memcmp(l,r,s) on exactly s bytes (libc memcmp trusted, uninterpreted)"),
]
C14_JOBS.append(dict(id="C14.DNode.Less", src="c14_memcmp.c", harness="h_Less", units=C14_UNITS + ["DNode.Less", "DNode.findMemberImpl"], defs=["VEC_LEN=32", "UNIT_Less"], arch="avx2", route="L",
    function="DNode::Less::operator() (static dispatch)", timeout=600, replay="less",
    claims="all key lengths: against InlinedMemcmp's contract (sign of memcmp over min(n1,n2) bytes) the comparator is asymmetric and two keys are equivalent exactly when they have the same length and bytes; compares exactly min(n1,n2) bytes"))
C14_JOBS.append(dict(id="C14.DNode.findMemberImpl", src="c14_memcmp.c", harness="h_findMember", units=C14_UNITS + ["DNode.Less", "DNode.findMemberImpl"], defs=["VEC_LEN=32", "UNIT_FindMember"], arch="avx2",
    route="B(<=4 members)", bound="objects of at most 4 members, names and key of at most 64 bytes", function="DNode::findMemberImpl(const char*, size_t) (static dispatch, no map)", unwind=6, timeout=600, replay="findmember",
    claims="bounded: against InlinedMemcmpEq's contract the linear scan returns the first member whose name has the same length and the same bytes, MemberEnd() otherwise; the byte comparison is only called with equal lengths, on exactly len bytes"))
PROPS["C14"] = dict(level="other", jobs=C14_JOBS, trusted_base=COMMON_TRUST + MODEL_TRUST, assumptions=[], undecided=[], explanation="")


# ===================================================================================== C09
C09_JOBS = []
for arch, vdef in ARCHS:
    qu = arch_units(arch) + ["QuotedChar", "kQuoteTab", "kNeedEscaped", "DoEscape", "CopyAndGetEscapMask", "MOVE_N_CHARS", "Quote"]
    def c09(id, harness, **kw):
        d = dict(id="C09.%s@%s" % (id, arch), src="c09_quote.c", harness=harness, units=qu, defs=[vdef] + kw.pop("xdefs", []), arch=arch, route="L", timeout=900)
        d.update(kw)
        return d
    C09_JOBS.append(c09("CopyAndGetEscapMask", "h_CopyAndGetEscapMask", function="CopyAndGetEscapMask", enforce="CopyAndGetEscapMask",
        claims="all VEC_LEN-byte blocks: copies exactly VEC_LEN bytes; mask bit i iff byte i is a quote, backslash or < 0x20; reads/writes exactly VEC_LEN bytes"))
    # Quote itself: three routes were built and none finished within 30 min / 60 GB on this machine (DESIGN section 12): DFCC loop
    # contracts with pointer re-basing, DFCC function contract with unwound loops (nb <= 2*VEC_LEN+8), and plain CBMC against callee
    # contract stubs (nb <= VEC_LEN+8). The harnesses stay in specs/c09_quote.c (h_Quote, h_Quote_exact, h_Quote_stubs); no job runs them.
# (a fourth route, Quote's tail block as a verbatim fragment with constant-size objects and -DPAGE_SIZE=256 — unit "Quote.tail",
#  harness h_Quote_tail — also timed out at 15 min; no job runs it)
for arch, vdef in ARCHS:
    for path, xd in (("production", []), ("sanitize", ["SANITIZE_PATH"])):
        C09_JOBS.append(dict(id="C09.Quote.tailguard.%s@%s" % (path, arch), src="c09_quote.c", harness="h_Quote_tailguard",
            units=arch_units(arch) + ["QuotedChar", "kQuoteTab", "kNeedEscaped", "DoEscape", "CopyAndGetEscapMask", "MOVE_N_CHARS", "Quote", "Quote.tailguard", "Quote.tailmask"],
            defs=[vdef, "UNIT_TailGuard"] + xd, arch=arch, route="L", function="Quote: tail source selection (%s path), verbatim fragment" % path, unwind=2, timeout=600, replay="quote",
            claims="complete for the fragment: all tails 1 <= nb < VEC_LEN, " + ("all offsets in a two-page object incl. strings ending on its last byte" if not xd else "exact-size heap source") +
                   ": the source selected for the tail loop (in place under the page-offset guard, else the stack copy) has nb - 1 + VEC_LEN readable bytes; the copy stays inside the stack buffer and the string. (That the loop reads at most that far is read off the code; Quote's loops are undecided.)"))
for arch, vdef in ARCHS:
    C09_JOBS.append(dict(id="C09.Quote.tailmask@" + arch, src="c09_quote.c", harness="h_Quote_tailmask",
        units=arch_units(arch) + ["QuotedChar", "kQuoteTab", "kNeedEscaped", "DoEscape", "CopyAndGetEscapMask", "MOVE_N_CHARS", "Quote", "Quote.tailguard", "Quote.tailmask"],
        defs=[vdef, "UNIT_TailMask"], arch=arch, route="L", function="Quote: tail mask statement, verbatim fragment", timeout=600, replay="quote",
        claims="complete for the fragment: for every tail 1 <= nb < VEC_LEN and every block mask, the mask used by the tail loop is the block mask restricted to its low nb bits; the shift amount is defined"))
C09_JOBS.append(dict(id="C09.tables", src="c09_quote.c", harness="h_quote_tables", units=C09_JOBS[0]["units"], defs=["VEC_LEN=32"], arch="avx2", route="L", function="kQuoteTab / kNeedEscaped",
    replay="quotetab", claims="all 256 bytes: need-escape flag, escape length (0/2/6) and escape text equal RFC 8259 section 7; the 8 bytes DoEscape copies are readable"))
C09_JOBS.append(dict(id="C09.DoEscape", src="c09_quote.c", harness="h_DoEscape", units=C09_JOBS[0]["units"], defs=["VEC_LEN=32"], arch="avx2", route="U", function="DoEscape",
    enforce="DoEscape", loop_contracts=True, expect_loops=1,
    claims="any nb >= 1 on exact-size blocks: reads only [src, src+nb), writes only [dst, dst+6*nb+2); consumes k >= 1 bytes, emits 2k..6k bytes, stops at the first byte needing no escape"))
C09_JOBS.append(dict(id="C09.DoEscape.exact", src="c09_quote.c", harness="h_DoEscape_exact", units=C09_JOBS[0]["units"], defs=["VEC_LEN=32"], arch="avx2", route="B(run<=4)", bound="runs of at most 4 consecutive escaped bytes (nb <= 5)",
    function="DoEscape", unwind=8, object_bits=16, replay="doescape",
    claims="bounded: consumes exactly the maximal run of bytes needing an escape and emits exactly their RFC 8259 escape texts, byte for byte"))
PROPS["C09"] = dict(level="other", jobs=C09_JOBS, trusted_base=COMMON_TRUST + MODEL_TRUST, assumptions=[], undecided=[], explanation="")


# ===================================================================================== C16
C16_UNITS = ["SONIC_ALIGN", "alloc.config", "ChunkHeader", "SharedData", "alloc.sizeof", "alloc.fields", "GetChunkHead", "GetChunkBuffer",
             "MemoryPoolAllocator.Clear", "MemoryPoolAllocator.Capacity", "MemoryPoolAllocator.Size",
             "SimpleChunkPolicy.ChunkSize", "AdaptiveChunkPolicy.ChunkSize", "MemoryPoolAllocator.AddChunk", "MemoryPoolAllocator.Malloc", "MemoryPoolAllocator.Realloc"]
C16_JOBS = []
for pol, pd in (("simple", []), ("adaptive", ["ADAPTIVE"])):
    def c16(id, harness, **kw):
        d = dict(id="C16.%s@%s" % (id, pol), src="c16_alloc.c", harness=harness, units=C16_UNITS, defs=pd + kw.pop("xdefs", []), arch=pol, route="L", timeout=900, small_cex=True,
                 cbmc_unwindset="MemoryPoolAllocator_Capacity.0:4,MemoryPoolAllocator_Size.0:4,MemoryPoolAllocator_Clear.0:4")
        d.update(kw)
        return d
    C16_JOBS.append(c16("ChunkSize", "h_ChunkSize", function="%sChunkPolicy::ChunkSize" % pol.capitalize(), enforce="ChunkPolicy_ChunkSize",
        claims="any policy state, any request 1..2^62: result >= request; clz argument non-zero and shift < 64"))
    C16_JOBS.append(c16("Malloc", "h_Malloc", function="MemoryPoolAllocator::Malloc (+AddChunk, GetChunkBuffer inlined)", enforce="MemoryPoolAllocator_Malloc",
        replace=["ChunkPolicy_ChunkSize"], replay="pool_malloc",
        claims="any well-formed pool, any size <= 2^62: 0 -> null; else null (base allocator failed, pool unchanged) or an 8-aligned block of align8(size) bytes wholly inside the head chunk directly after what was handed out before, or at the start of a fresh chunk pushed in front; frame: no byte of any chunk buffer is written"))
    C16_JOBS.append(c16("Realloc", "h_Realloc", function="MemoryPoolAllocator::Realloc", xdefs=["UNIT_Realloc"], enforce="MemoryPoolAllocator_Realloc",
        replace=["ChunkPolicy_ChunkSize", "memcpy"], replay="pool_realloc",
        claims="any well-formed pool, old block anywhere in the pool: null old -> Malloc; new size 0 -> null; shrink -> same pointer, pool unchanged; grow -> in place only when it is the last block and fits in the head chunk, else a Malloc block whose first bytes equal the old contents (ghost index); old block untouched; frame: only bytes at or after the old bump pointer"))
    if pol == "simple":
        C16_JOBS.append(c16("Realloc.observe", "h_Realloc", function="MemoryPoolAllocator::Realloc", xdefs=["UNIT_Realloc", "OBSERVE_ALL"], enforce="MemoryPoolAllocator_Realloc",
            replace=["ChunkPolicy_ChunkSize", "memcpy"], route="O", flags=["--no-pointer-primitive-check"] if False else [],
            observe=[(r"pointer arithmetic: pointer outside object bounds in \(return_value_GetChunkBuffer \+ .*\) - \(signed long int\)originalSize", None)],
            claims="observation only: with all checks on, CBMC flags the last-block test's pointer, formed below the head chunk for a large old block (compared, never dereferenced)"))
    C16_JOBS.append(c16("disjoint", "h_disjoint", function="Malloc; Malloc (real bodies, two consecutive calls)", replace=["ChunkPolicy_ChunkSize"], replay="pool_malloc2",
        claims="two consecutive allocations from any well-formed pool: blocks are disjoint and 8-aligned (Malloc's contract with a fresh-chunk clause cannot be assumed by CBMC at a call site, so the two calls run the real body)"))
C16_LIFE = C16_UNITS + ["MemoryPoolAllocator.dtor",
                        "MemoryPoolAllocator.copy_assign", "MemoryPoolAllocator.move_assign"]
for hn, fn, cl in (("h_walks", "Clear / Size / Capacity", "pools of <= 3 chunks: Size/Capacity are the sums over the chunk list; Clear releases every chunk but the first exactly once and resets it"),
                   ("h_dtor", "~MemoryPoolAllocator", "pools of <= 3 chunks, 1..3 owners: a non-last copy only decrements; the last copy releases all chunks and the owned shared block exactly once, never a user buffer"),
                   ("h_move_assign", "operator=(MemoryPoolAllocator&&)", "two unrelated pools: the target adopts the source's pool without changing its owner count, the source is left empty and its destruction releases nothing, the target's previous pool is released exactly when it lost its last owner"),
                   ("h_copy_assign", "operator=(const MemoryPoolAllocator&)", "unrelated pools, two copies of one pool, and self-assignment: owner counts, release of the previous pool exactly when it lost its last owner, nothing released for aliases")):
    C16_JOBS.append(dict(id="C16.%s" % hn[2:], src="c16_alloc.c", harness=hn, units=C16_LIFE, defs=["UNIT_Lifecycle"], arch="simple", route="B(<=3 chunks)", bound="chunk list length <= 3, capacities <= 64",
                         function="MemoryPoolAllocator::" + fn, unwind=5, timeout=900, replay="pool_life", claims="bounded: " + cl))
C16_JOBS.append(dict(id="C16.AlignBuffer", src="c16_alloc.c", harness="h_AlignBuffer", units=C16_UNITS + ["MemoryPoolAllocator.AlignBuffer"], defs=["UNIT_AlignBuffer"], arch="simple", route="L",
    function="MemoryPoolAllocator::AlignBuffer", timeout=600, replay="alignbuffer",
    claims="user buffers of 8..4096 bytes at any misalignment: the result is pointer-aligned, lies inside the buffer, skips fewer than 8 bytes and the size shrinks by exactly the skipped bytes; the repo's sonic_assert(size >= skipped) holds"))
PROPS["C16"] = dict(level="other", jobs=C16_JOBS, trusted_base=COMMON_TRUST, assumptions=[], undecided=[], explanation="")


# ===================================================================================== C06 (growth contracts of the write buffer)
C06_UNITS = ["SONIC_ALIGN", "Stack.fields", "Stack.Size", "Stack.Capacity", "Stack.Clear", "Stack.setZero", "Stack.Reserve", "Stack.Grow", "Stack.Push_char",
             "Stack.PushUnsafe_char", "Stack.PushSize_char", "Stack.PushSizeUnsafe_char", "Stack.Pop_char", "Stack.End_char", "Stack.Begin_char",
             "Stack.Push_str", "Stack.PushUnsafe_str", "Stack.Push5_8", "WriteBuffer.ToString"]
OBS_REALLOC = []
def c06(id, harness, **kw):
    d = dict(id="C06." + id, src="c06_stack.c", harness=harness, units=C06_UNITS, defs=[], arch="-", route="L", timeout=900, small_cex=True, observe=OBS_REALLOC,
             flags=["--no-malloc-may-fail"], gi_flags=["--no-malloc-may-fail"])
    d.update(kw)
    return d
C06_JOBS = []
for st, sd, off in (("allocated", [], []), ("null", ["NULL_STATE=1"], [])):
    note = " [pointer checks are off inside Grow and Size only: Grow's capacity test compares pointers past the end of the block (NULL + n in the moved-from state) and Reserve evaluates Size() right after realloc; neither touches a buffer byte; every dereference and memcpy extent in the emitters is checked]"
    C06_JOBS += [
    c06("Stack.Reserve@" + st, "h_Reserve", function="Stack::Reserve (+Size, Capacity)", enforce="Stack_Reserve", replay="stack_reserve", defs=sd, checks_off=off,
        claims="any well-formed buffer (capacity 0, partly filled, full), any request 1..2^40: capacity becomes max(old, request); block of SONIC_ALIGN(capacity) bytes; Size() and the first Size() bytes preserved (ghost index)" + note),
    c06("Stack.Grow@" + st, "h_Grow", function="Stack::Grow (+Reserve inlined)", enforce="Stack_Grow", replay="stack_grow", defs=sd, checks_off=off,
        claims="any well-formed buffer, any cnt (cnt >= 1 or capacity >= 1): afterwards End()+cnt <= Begin()+Capacity(); capacity never shrinks; size and contents preserved; both growth branches" + note),
    c06("WriteBuffer.ToString@" + st, "h_ToString", function="WriteBuffer::ToString (+Grow, Reserve inlined)", replay="stack_grow", defs=sd, checks_off=off,
        claims="any starting state: returns Begin(); the NUL terminator is written at End(), inside the allocation; length and contents unchanged" + note),
    c06("Stack.pushers@" + st, "h_pushers", function="Stack::Push<char> / Push(s,n) / Push5_8 / PushSize / PushUnsafe / PushSizeUnsafe (+Grow, Reserve inlined)", replay="stack_push", defs=sd, checks_off=off,
        claims="every emitter writes only inside the capacity it reserved, appends the stated number of bytes, keeps earlier contents; Grow(k) followed by unchecked pushes of <= k bytes stays inside the capacity" + note),
    ]
C06_JOBS.append(dict(id="C06.SerializeImpl.reservations", src="c06_serialize.c", harness="h_SerializeImpl", units=["SerializeImpl"], defs=["NODES=6"], arch="-",
    route="B(each goto back-edge <= 1 traversal)", bound="each goto back-edge of the driver traversed at most once (root plus the first steps into it: every node kind as root and as first child/member), any sizes, any initial buffer size/capacity",
    function="SerializeImpl (driver) against the extent contracts of Stack and of the emitters", unwind_paths=2, cbmc_unwindset="h_SerializeImpl.0:7", timeout=900, replay="serialize",
    claims="bounded, plain CBMC: every unchecked push is covered by the Reserve/Grow before it (6n+35 per string, 33 per number, 8 per literal, 3 / 2 per bracket, n+1 per raw value); Quote / I64toa / U64toa are handed the writable extent their contracts require; the popped separator exists; sonic_assert(0 < rn <= 32)"))
PROPS["C06"] = dict(level="other", jobs=C06_JOBS, trusted_base=COMMON_TRUST, assumptions=[], undecided=[], explanation="")


# ===================================================================================== C08
C08_UNITS = ["kDigits", "Copy2Digs", "Utoa_1_8", "U64toa_17_20", "U64toa", "I64toa", "itoa.macros", "kVec16xAsc0", "Utoa_8", "Utoa_16"]
def c08(id, harness, **kw):
    d = dict(id="C08." + id, src="c08_itoa.c", harness=harness, units=C08_UNITS, defs=[], arch="x86", route="L", timeout=900)
    d.update(kw)
    return d
C08_JOBS = [
    c08("lemma.endpoints", "h_div_endpoints", function="(arithmetic lemma end points)", claims="constant-folded end points of the division-monotonicity lemma"),
    c08("Utoa_8", "h_Utoa_8", function="Utoa_8", replace=["UtoaSSE"], claims="all val < 10^8: the 8 output bytes are '0' + digit lane k; one 16-byte store inside out[0..16)"),
    c08("Utoa_16", "h_Utoa_16", function="Utoa_16", replace=["UtoaSSE"], smt="z3", claims="all val < 10^16: 8 digits of val/10^8 then 8 digits of val%10^8; kernel preconditions (< 10^8) hold; one 16-byte store"),
    c08("U64toa", "h_U64toa", function="U64toa (+U64toa_17_20, Utoa_8, Utoa_16 inlined)", replace=["UtoaSSE", "Utoa_1_8"], replay="u64toa", smt="z3",
        claims="all 2^64 values: branch partition at 10^8 and 10^16; output is spelling(hi) ++ zero-padded digits of lo with hi,lo the quotient/remainder; kernel preconditions hold at every call; length <= 20; writes stay inside 24 bytes"),
    c08("I64toa", "h_I64toa", function="I64toa", defs=["UNIT_I64toa"], replace=["U64toa"], replay="i64toa",
        claims="all 2^64 values: a single leading '-' exactly for negatives, then U64toa(|val|) with |INT64_MIN| = 2^63; at most 21 characters; writes stay inside 25 bytes. Signed-overflow check is off inside I64toa (observation job): `-val` overflows for INT64_MIN, x86-64 compilers wrap"),
    c08("I64toa.observe", "h_I64toa", function="I64toa", defs=["UNIT_I64toa", "OBSERVE_ALL"], replace=["U64toa"], route="O",
        observe=[(r"arithmetic overflow on signed unary minus in -val", None)],
        claims="observation only: `-val` is signed negation of INT64_MIN (formally undefined; wraps on x86-64 and the cast yields 2^63)"),
    c08("Utoa_1_8.extent", "h_Utoa_1_8_extent", function="Utoa_1_8", defs=["REAL_Utoa_1_8"], replace=["UtoaSSE"],
        claims="all val < 10^8: table indices in range, writes only out[0..8), returns out+1..out+8 (digits: exhaustive native step)"),
]
PROPS["C08"] = dict(level="other", jobs=C08_JOBS, trusted_base=COMMON_TRUST + MODEL_TRUST,
    native=[dict(id="c08_kernels", kind="exhaustive", src="specs/native/c08_kernels.cpp", cflags=["-mavx2", "-mpclmul", "-mbmi", "-mlzcnt"],
                 obligation="C08.kernels: Utoa_1_8 / Utoa_8 / UtoaSSE produce the canonical decimal digits for every value below 10^8", timeout=1800)],
    assumptions=[], undecided=[], explanation="")


# ===================================================================================== C04
C04_UNITS = ["kPow10Tab", "is_digit", "Parser.fields", "Parser.carry_one", "Parser.str2int", "Parser.parseFloatingFast", "Parser.parseNumber"]
C04_JOBS = []
for nb, shape, tho in ((12, None, False), (30, "SHAPE_ZEROS", False), (21, "SHAPE_LONGINT", False), (23, "SHAPE_LONGINT", False), (27, "SHAPE_LONGINT", False), (26, None, True)):
    C04_JOBS.append(dict(id="C04.parseNumber.nb%d%s" % (nb, "." + shape[6:].lower() if shape else ""), src="c04_number.c", harness="h_parseNumber", units=C04_UNITS, defs=["NB=%d" % nb] + ([shape] if shape else []) + (["LONGINT_FREE=%d" % (4 if nb == 27 else 2)] if shape == "SHAPE_LONGINT" else []), arch="-",
        route="B(len<=%d%s)" % (nb, ", " + shape[6:].lower() + " shape" if shape else ""),
        bound="number text of at most %d bytes%s" % (nb, {None: "", "SHAPE_ZEROS": ", of the shape [-]0.00...0 + 3 arbitrary bytes", "SHAPE_LONGINT": ", of the shape [-]ddd...d + %d arbitrary bytes (all but the last %d bytes after the first are digits)" % ((3, 4) if nb == 27 else (1, 2))}[shape]),
        thorough_only=tho, function="Parser::parseNumber (+str2int, carry_one, parseFloatingFast)", unwind=max(nb + 3, 18), object_bits=12, timeout=3000 if nb > 12 and not shape else 900, flags=["--slice-formula"], solver="cadical",
        replay="parsenumber",
        claims="bounded: accepts exactly the RFC 8259 number grammar and stops on the first byte that cannot continue it; integers within uint64 / int64 are delivered exactly with the right kind, others as Double; signed zero; the float converters are reached only with a non-zero mantissa and in-range table indices; a dropped non-zero digit is always reported (trunc) and never reaches the exact-mantissa path"))
C04_JOBS.append(dict(id="C04.parseFloatingFast", src="c04_number.c", harness="h_parseFloatingFast", units=C04_UNITS, defs=["UNIT_parseFloatingFast"], arch="-", route="L",
    function="Parser::parseFloatingFast", flags=["--slice-formula"], timeout=600,
    claims="all man < 2^52, -22 <= exp10 <= 37: every kPow10Tab index (exp10-22, 22, exp10, -exp10) is inside the 23-entry table"))
C04_JOBS.append(dict(id="C04.AtofEiselLemire64.normal", src="c04_number.c", harness="h_AtofEiselLemire64",
    units=C04_UNITS + ["avx2.LeadingZeroes", "kPow10M128Tab", "MulU64", "AtofEiselLemire64", "ParseFloatingNormalFast"], defs=["UNIT_EiselLemire"], arch="-", route="L",
    function="AtofEiselLemire64", enforce="AtofEiselLemire64", flags=["--slice-formula"], timeout=900, replay="eisel",
    claims="all mantissas != 0, all exponents, both signs: table index in range, every shift amount defined, and a successful conversion is a normal finite double (exponent field 1..2046) with the requested sign. Its ROUNDING is not decided"))
C04_JOBS.append(dict(id="C04.ParseFloatingNormalFast.normal", src="c04_number.c", harness="h_ParseFloatingNormalFast",
    units=C04_UNITS + ["avx2.LeadingZeroes", "kPow10M128Tab", "MulU64", "AtofEiselLemire64", "ParseFloatingNormalFast"], defs=["UNIT_EiselLemire", "CONTRACT_DUMMY"], arch="-", route="L",
    function="ParseFloatingNormalFast", enforce="ParseFloatingNormalFast_real", flags=["--slice-formula"], timeout=900, replay="normalfast",
    claims="all mantissas != 0, -307 < exp10 < 288, both signs: table index in range, every shift amount defined, and a successful conversion is a normal finite double with the requested sign. Its ROUNDING is not decided"))
C04_JOBS.append(dict(id="C04.ShouldRoundup", src="c04_number.c", harness="h_ShouldRoundup", units=C04_UNITS + ["Decimal", "DECIMAL_MAX_DNUM", "ShouldRoundup"], defs=["UNIT_ShouldRoundup"], arch="-", route="L",
    function="ShouldRoundup (big-decimal fallback)", timeout=600, replay="roundup",
    claims="all trimmed digit strings of up to 800 digits, all positions, both truncation flags: the round-up decision is IEEE round-half-to-even of the discarded digits (truncated non-zero tail counts as above one half); reads stay inside the digit array"))
PROPS["C04"] = dict(level="other", jobs=C04_JOBS, trusted_base=COMMON_TRUST, assumptions=[], undecided=[], explanation="")


# ===================================================================================== C15 (same contracts for both x86 instantiations)
import copy
C15_JOBS = []
for src_prop, pick in (("C11", ("GetNonSpaceBits@", "GetNextToken_3@", "GetNextToken_4@", "SkipString@", "GetStringBits@", "GetEscaped_")),
                       ("C05", ("StringBlock@", "parseStringInplace.classify@")), ("C09", ("CopyAndGetEscapMask@",))):
    for j in PROPS[src_prop]["jobs"]:
        if any(("." + p) in j["id"] for p in pick):
            k = copy.deepcopy(j); k["id"] = "C15." + j["id"]; k.pop("replay", None)
            k["claims"] = "[same contract proved for the avx2 and the sse instantiation => identical results] " + j["claims"]
            C15_JOBS.append(k)
for arch, vdef in ARCHS:
    VL = 32 if arch == "avx2" else 16
    C15_JOBS.append(dict(
        id="C15.SkipString.exact@" + arch, src="c11_skip.c", harness="h_SkipString_exact", units=arch_units(arch) + ["IsSpace"] + ESC + SKIP_LEAVES, defs=[vdef, "UNIT_SkipString", "SKIPSTRING_EXACT", "LMAX=40"], arch=arch,
        route="B(len<=40)", bound="len <= 40 (2*VEC_LEN+8 for sse, VEC_LEN+8 for avx2)", function="SkipString", unwind=42, object_bits=16, timeout=1200, replay="skipstring", solver="cadical",
        claims="bounded: for every content, length and start position, the result equals the scalar oracle (first unescaped quote; escaped flag); both instantiations against the same oracle"))
# Xmemcpy<16|32> (units avx2./sse.Xmemcpy_*, harnesses in specs/c15_xmemcpy.c): the sse bodies check at chunks <= 5 (jobs below); the
# avx2 bodies (nested unrolled loops) exhaust the solver's memory even at that bound; no job runs them (DESIGN section 12).
for _n in (16, 32):
    C15_JOBS.append(dict(
        id="C15.Xmemcpy_%d@sse" % _n, src="c15_xmemcpy.c", harness="h_Xmemcpy_%d" % _n, units=arch_units("sse") + ["sse.Xmemcpy_16", "sse.Xmemcpy_32"], defs=[dict(ARCHS)["sse"], "XM_MAX=5"], arch="sse",
        route="B(chunks<=5)", bound="chunks <= 5", replay="xmemcpy%d" % _n, function="sse::Xmemcpy<%d>" % _n, unwind=12, object_bits=12, timeout=900,
        claims="bounded (chunks <= 5), sse instantiation only: every byte k < chunks*%d of the destination equals the source byte, the source is unchanged, and every load/store stays inside the exact-size blocks (memcpy semantics, the statement both instantiations must meet). The avx2 body: see the .split jobs" % _n))
for _arch, _vdef in ARCHS:
    for _n in (16, 32):
        C15_JOBS.append(dict(
            id="C15.Xmemcpy_%d.split@%s" % (_n, _arch), src="c15_xmemcpy.c", harness="h_Xmemcpy_%d_split" % _n, units=arch_units(_arch) + [_arch + ".Xmemcpy_16", _arch + ".Xmemcpy_32"], defs=[_vdef], arch=_arch,
            route="B(chunks<=9)", bound="chunks <= 9 (case-split into constants)", replay="xmemcpy%d" % _n, function="%s::Xmemcpy<%d>" % (_arch, _n), unwind=20, object_bits=12, timeout=900,
            claims="bounded (every chunk count 0..9, all contents): destination bytes [0, chunks*%d) equal the source, the byte after them is not written, the source is unchanged, all loads/stores inside the blocks; the same statement for the avx2 and the sse body => identical results" % _n))
PROPS["C15"] = dict(level="other", jobs=C15_JOBS, trusted_base=COMMON_TRUST + MODEL_TRUST,
    native=[dict(id="ifunc_forwarders", kind="script", src="tools/ifunc_check.py",
                 obligation="C15.dispatch: every target(SONIC_WESTMERE/SONIC_HASWELL) wrapper in x86_ifuncs/*.h is `return <sse|avx2>::<same name>(<its parameters in order>);`")],
    assumptions=[], undecided=[], explanation="")


# ===================================================================================== model validation (supporting native steps)
MODEL_STEPS = [
    dict(id="validate_models", kind="validate", src="specs/native/validate_models.cpp", cflags=["-mavx2", "-mpclmul", "-mbmi", "-mbmi2", "-mlzcnt"], n_quick=100000, n_thorough=5000000, timeout=1800),
    dict(id="validate_wrap_avx2", kind="validate", src="specs/native/validate_wrap.cpp", cflags=["-mavx2", "-mpclmul", "-mbmi", "-mbmi2", "-mlzcnt", "-DVEC_LEN=32"], n_quick=100000, n_thorough=5000000, timeout=1800),
    dict(id="validate_wrap_sse", kind="validate", src="specs/native/validate_wrap.cpp", cflags=["-march=westmere", "-mpclmul", "-DVEC_LEN=16"], n_quick=100000, n_thorough=5000000, timeout=1800),
]
for _p in ("C05", "C09", "C11", "C14", "C15", "C08"):
    PROPS[_p]["native"] = PROPS[_p].get("native", []) + MODEL_STEPS
MODEL_TRUST[:] = [
    "models/intrin.h: byte-lane models of the Intel intrinsics (compared with the CPU on sampled and edge-case vectors every run: native steps validate_models)",
    "models/simdwrap.h: models of the sonic simd.h wrapper idioms (compared with the real simd256/simd128/simd8x64 classes on sampled vectors every run: native steps validate_wrap_*)",
]


# ===================================================================================== assumptions / undecided residue reported in every evidence file
_COMMON_ASSUME = ["CBMC 6.11 is sound for the checks enabled; machine arithmetic is 64-bit two's complement (exact), not mathematical integers",
                  "the textual lowering of tools/slice.py preserves the meaning of the sliced C++ text (rules fired are listed per unit in coverage.sliced_units)"]
_MODEL_ASSUME = ["models/intrin.h and models/simdwrap.h agree with the CPU / the real simd.h classes (sampled on every run, not proved)"]
_INFO = {
 "C04": dict(assumptions=["simd_str2int is an ASSUMED scalar contract (reads 16 bytes, value and count of the leading <= man_nd digits); its SIMD body is not modelled",
                          "AtofEiselLemire64, ParseFloatingNormalFast and AtofNative are contract-only stubs (preconditions asserted, results nondeterministic)",
                          "bounded: text length <= 12 (any shape), <= 30 ([-]0.00...0 + 3 bytes), <= 27 (>= 22 digits + 3 bytes); <= 26 any shape in the thorough tier"],
             undecided=["correct rounding of every converter path (exact small, table multiply, Eisel-Lemire, truncated-mantissa retry, big-decimal fallback)",
                        "the infinity decision of the fallback (bit pattern of DecimalToF64 overflow exits)", "simd_str2int's digit arithmetic"]),
 "C05": dict(assumptions=[], undecided=["the in-place loop parseStringInplace (find / cont / find_and_move phases, scalar tail): bounded jobs did not finish; only its leaves are decided",
                                        "the key / on-demand-key call sites beyond what C11's driver job checks"]),
 "C06": dict(assumptions=["realloc never fails (--no-malloc-may-fail): the code asserts a non-null result", "stated preconditions: Reserve(n >= 1); Grow(0) only with capacity >= 1",
                          "capacities and requests <= 2^38 / 2^40", "SerializeImpl job: F64toa writes and emits at most 32 bytes (C07, undecided); node tree over-approximated by a nondeterministic node array; each goto back-edge traversed at most once"],
             undecided=["validity of the emitted text as RFC 8259 JSON", "parse-back equality and idempotent re-serialisation", "reservations that are only exhausted after many nodes", "error paths returning kSerErrorInfinity / empty Dump"]),
 "C08": dict(assumptions=["unsigned division by a positive constant is monotone (only the end points are machine-checked)", "positional notation: dec(h*10^k + l) = dec(h) ++ pad_k(l) for l < 10^k",
                          "the 8-digit kernels are decided by exhaustive enumeration of the code compiled by g++ -O2 on this machine, not deductively"], undecided=[]),
 "C09": dict(assumptions=["nb <= 2^31-1"], undecided=["Quote's own loops: tail page guard, tail mask, total extent 6n+2, byte-exact output (four verification routes did not finish)",
                                                        "DoEscape byte-exactness beyond runs of 4 escaped bytes"]),
 "C11": dict(assumptions=["len <= 2^31-1 (2^31-65 for container skipping and the scanner members)", "driver job: std::vector<uint8_t>, GenericJsonPointer, memcpy, memcmp and parseStringInplace are contract stubs; path <= 3 steps, each goto back-edge <= 2 traversals"],
             undecided=["SkipContainer in the quick tier (its unbounded proof runs in the thorough tier only, about 20 min per instantiation)", "driver paths with more back-edge traversals than the bound"]),
 "C14": dict(assumptions=["operands live in objects made of whole 4096-byte pages (s < 32) or exact-size heap blocks (s >= 32); s <= 2^31-1", "libc memcmp is an uninterpreted function in the sse forwarder job"],
             undecided=["findMemberImpl's linear scan and std::multimap lookup themselves (DOM classes); only the comparator and the byte-compare kernels are decided", "sign of InlinedMemcmp for s > 159 (unbounded job proves only: result 0 implies equal bytes)"]),
 "C15": dict(assumptions=["GCC's ifunc resolver picks one of the checked wrappers; -march code generation is correct"],
             undecided=["SkipContainer, Quote, parseStringInplace, the DOM parse driver and the serializer across configurations", "SkipString for len > 40 (relational)", "Xmemcpy<16|32> beyond 9 chunks (both bodies; the symbolic-count harness exhausts the solver on the avx2 bodies, the case-split one is bounded by construction)", "production vs sanitizer preprocessor paths other than in_page_32 / is_eq_lt_32 / cmp_lt_32 (C14)"]),
 "C16": dict(assumptions=["BaseAllocator::Malloc returns null or a fresh suitably aligned block; Free releases it (stub)", "libc memcpy copies n bytes (contract)", "sizes, capacities and the policy's chunk size <= 2^48"],
             undecided=["constructors (member-initialiser lists), move construction", "chunk lists longer than 3 in Clear / Size / Capacity / destructor / copy assignment", "the locked-allocator option (C17)"]),
}
for _p, _d in _INFO.items():
    PROPS[_p]["assumptions"] = _COMMON_ASSUME + (_MODEL_ASSUME if _p in ("C05", "C09", "C11", "C14", "C15", "C08") else []) + _d["assumptions"]
    PROPS[_p]["undecided"] = _d["undecided"]


# ===================================================================================== supporting static fact: no hidden state in the sliced functions
for _p in ("C04", "C05", "C06", "C08", "C09", "C11", "C14", "C15", "C16"):
    PROPS[_p]["native"] = PROPS[_p].get("native", []) + [dict(
        id="static_locals", kind="script", src="tools/static_locals.py", args=[_p],
        obligation="%s.stateless: no function under contract for this property declares a mutable function-local static (its result would depend on earlier calls, which a per-call contract cannot see)" % _p)]
