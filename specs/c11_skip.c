/* C11: the on-demand scanner leaves of skip.inc.h / skip_common.h under contract
 * (GetNextToken<3|4>, SkipString, SkipContainer, SkipLiteral + EqBytes4). */
#include "arch.h"
#include "ghost.h"
#include "gen/IsSpace.inc"
#include "gen/GetEscaped_16.inc"
#include "gen/GetEscaped_32.inc"
#include "gen/GetEscaped_64.inc"

/* c is one of the N-1 token bytes */
#define SPEC_IS_TOKEN(c, tokens, N) ((c) == (uint8_t)(tokens)[0] || (c) == (uint8_t)(tokens)[1] || ((N) > 3 && (c) == (uint8_t)(tokens)[2]))

#ifdef UNIT_GetNextToken
#include "gen/GetNextToken_3.inc"
#include "gen/GetNextToken_4.inc"
#endif

#ifdef UNIT_SkipString
#include "gen/SkipString.inc"
#endif

#ifdef UNIT_SkipContainer
/* GetStringBits: frame-only contract (C11 needs no fact about the mask values) */
uint64_t GetStringBits(const uint8_t *data, uint64_t *prev_instring__r, uint64_t *prev_escaped__r)
__CPROVER_requires(__CPROVER_r_ok(data, 64))
__CPROVER_requires(__CPROVER_rw_ok(prev_instring__r, 8) && __CPROVER_rw_ok(prev_escaped__r, 8))
__CPROVER_assigns(*prev_instring__r, *prev_escaped__r)
__CPROVER_ensures(1)
;
#include "gen/GetStringBits.inc"
/* libc memcpy by contract: SkipContainer's tail copies the last len-pos < 64 bytes into a zeroed stack buffer; the copied
 * bytes themselves are irrelevant for the bounds claims (they are re-read through GetStringBits / the block load) */
void *memcpy(void *d, const void *s, size_t n)
__CPROVER_requires(__CPROVER_w_ok(d, n) && __CPROVER_r_ok(s, n))
__CPROVER_assigns(__CPROVER_object_upto(d, n))
__CPROVER_ensures(__CPROVER_return_value == d)
;
#include "gen/SkipContainer.inc"
#endif

#ifdef UNIT_SkipLiteral
#include "gen/EqBytes4.inc"
#include "gen/SkipLiteral.inc"
#endif

/* ------------------------------------------------------------------ harnesses (DFCC allocates arguments) */
#ifdef UNIT_GetNextToken
void h_GetNextToken_3(void) { uint8_t *data; size_t pos, len; char *tokens; (void)(GetNextToken_3)(data, &pos, len, tokens); CANARY(); }
void h_GetNextToken_4(void) { uint8_t *data; size_t pos, len; char *tokens; (void)(GetNextToken_4)(data, &pos, len, tokens); CANARY(); }
#endif
#ifdef UNIT_SkipString
void h_SkipString(void) { uint8_t *data; size_t pos, len; (void)SkipString(data, pos, len); CANARY(); }
#endif
#ifdef UNIT_SkipContainer
void h_GetStringBits(void) {
  uint8_t *buf = malloc(64); __CPROVER_assume(buf != NULL);
  uint64_t pi, pe;
  (void)GetStringBits(buf, pi, pe);
  CANARY();
}
void h_SkipContainer(void) { uint8_t *data; size_t pos, len; uint8_t l, r; (void)SkipContainer(data, pos, len, l, r); CANARY(); }
#endif
#ifdef UNIT_SkipLiteral
void h_SkipLiteral(void) { uint8_t *data; size_t pos, len; uint8_t t; (void)SkipLiteral(data, pos, len, t); CANARY(); }
#endif

#if defined(UNIT_SkipString) && defined(SKIPSTRING_EXACT)
/* bounded functional check (used by C15: both instantiations against the same scalar oracle => identical results):
 * SkipString finds exactly the first unescaped quote at or after pos */
#ifndef LMAX
#define LMAX (2 * VEC_LEN + 8)
#endif
uint8_t in_data[LMAX]; size_t in_len, in_pos;
void h_SkipString_exact(void) {
  /* SkipString only ever uses data + pos and len - pos, and its blocks start at pos: pos = 0 is without loss of generality */
  size_t len, pos0 = 0; __CPROVER_assume(len <= LMAX); in_len = len; in_pos = pos0;
  uint8_t *data = malloc(len); __CPROVER_assume(data != NULL);             /* exact-size, unpadded */
  for (size_t i = 0; i < LMAX; i++) if (i < len) in_data[i] = data[i];
  /* oracle, RFC 8259 section 7: a backslash escapes the next byte; the literal ends at the first quote that is not escaped */
  int want = 0; size_t wpos = 0; _Bool esc = 0, skip = 0, done = 0;
  for (size_t i = 0; i < LMAX; i++) if (i >= pos0 && i < len && !done) {
    if (skip) { skip = 0; }
    else if (in_data[i] == '\\') { esc = 1; skip = 1; }
    else if (in_data[i] == '"') { want = esc ? 2 : 1; wpos = i + 1; done = 1; }
  }
  size_t pos = pos0;
  int r = SkipString(data, pos, len);
  VASSERT((r != 0) == (want != 0), "C15.skipstring.closed: a closing quote is found exactly when an unescaped quote exists");
  VASSERT(r == 0 || pos == wpos, "C15.skipstring.pos: pos' is one past the first unescaped quote");
  VASSERT(want != 2 || r == 2, "C15.skipstring.escaped: a literal containing a backslash is reported as escaped");
  CANARY();
}
#endif

#ifdef UNIT_GetEscaped
/* GetEscaped<N> against a scalar reference (RFC 8259 section 7: a backslash escapes the next character; an escaped backslash
 * escapes nothing), for every backslash mask and carry: pins the odd-bits trick and the block-carry bit (N-1) for N = 16, 32, 64 */
#ifndef GE_N
#define GE_N 64
#endif
uint64_t in_bs, in_prev;
void h_GetEscaped(void) {
  uint64_t prev, bs; __CPROVER_assume(prev <= 1); in_bs = bs; in_prev = prev;
#if GE_N < 64
  __CPROVER_assume((bs >> GE_N) == 0);                   /* callers pass an N-bit mask */
#endif
  uint64_t want = 0, e = prev;
  for (int i = 0; i < GE_N; i++) { uint64_t esc = e; want |= esc << i; e = ((bs >> i) & 1) & (esc ^ 1); }
  uint64_t p = prev;
  uint64_t r = GETESCAPED(GE_N)(p, bs);
#if GE_N < 64
  r &= (((uint64_t)1 << GE_N) - 1);                      /* bits at and above N are not used by any caller */
#endif
  VASSERT(r == want, "C11.getescaped.mask: bit i is set exactly when character i is escaped by an odd run of backslashes (carry-in included)");
  VASSERT(p == e, "C11.getescaped.carry: the carry-out says whether the block ends in an unescaped backslash");
  CANARY();
}
#endif
