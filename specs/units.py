"""units.py — which text is sliced from /repo, how it is lowered to C, and the contracts.

Every entry: file (relative to /repo), anchor (regex, must match exactly once unless nth is
given), kind (func|table|struct|enum|macro), optional lowering rules (name, regex, repl),
must_fire (rule names that have to fire), tparams (template parameter -> value), autos
(variable -> C type for `auto`), fields/self (member functions), nloops + loops (loop
contracts by loop ordinal), contract (function contract text placed on a forward
declaration), callmacro (call-site adapter for by-reference parameters).
"""
A = "include/sonic/internal/arch/"
UNITS = {}

# ------------------------------------------------------------------ error codes
UNITS["error_enum"] = dict(
    file="include/sonic/error.h", anchor=r"enum SonicError \{", kind="enum",
    rules=[("enum-typedef", r"^enum SonicError \{", "typedef enum SonicError {"),
           ("enum-typedef-end", r"\};\s*$", "} SonicError;")],
    must_fire=["enum-typedef", "enum-typedef-end"])

# ------------------------------------------------------------------ unicode_common.h
UC = A + "common/unicode_common.h"
UNITS["digit_to_val32"] = dict(file=UC, anchor=r"static const uint32_t digit_to_val32\[886\] = \{", kind="table")
UNITS["hex_to_u32_nocheck"] = dict(file=UC, anchor=r"static inline uint32_t hex_to_u32_nocheck\(")
UNITS["codepoint_to_utf8"] = dict(file=UC, anchor=r"sonic_force_inline size_t codepoint_to_utf8\(")
UNITS["handle_unicode_codepoint"] = dict(file=UC, anchor=r"sonic_force_inline bool handle_unicode_codepoint\(")
for bs in (16, 32, 64):
    UNITS["GetEscaped_%d" % bs] = dict(
        file=UC, anchor=r"sonic_force_inline uint64_t GetEscaped\(", cname="GetEscaped_%d" % bs,
        tparams={"BLOCK_SIZE": str(bs)},
        callmacro="#define GetEscaped_%d(pe, bs) (GetEscaped_%d)(&(pe), bs)" % (bs, bs))

# ------------------------------------------------------------------ quote_tables.h
QT = A + "common/quote_tables.h"
UNITS["kEscapedMap"] = dict(file=QT, anchor=r"static const uint8_t kEscapedMap\[256\] = \{", kind="table")
UNITS["QuotedChar"] = dict(file=QT, anchor=r"struct QuotedChar \{", kind="struct")
UNITS["kQuoteTab"] = dict(file=QT, anchor=r"static const struct QuotedChar kQuoteTab\[256\] = \{", kind="table")
UNITS["kNeedEscaped"] = dict(file=QT, anchor=r"static const bool kNeedEscaped\[256\] = \{", kind="table")

# ------------------------------------------------------------------ utils.h, base.h (both arches)
UNITS["IsSpace"] = dict(file="include/sonic/internal/utils.h", anchor=r"static sonic_force_inline bool IsSpace\(")
for arch in ("avx2", "sse"):
    B = A + arch + "/base.h"
    for fn, rt in (("TrailingZeroes", "int"), ("LeadingZeroes", "int"), ("CountOnes", "long long int"), ("PrefixXor", "uint64_t")):
        UNITS["%s.%s" % (arch, fn)] = dict(
            file=B, anchor=r"sonic_force_inline %s %s\(" % (rt.replace(" ", r"\s+"), fn),
            rules=[("set1-char", r"_mm_set1_epi8\('\\xFF'\)", r"_mm_set1_epi8((char)0xFF)")] if fn == "PrefixXor" else [])

# ------------------------------------------------------------------ SIMD wrapper idioms (skip.inc.h, quote.inc.h, unicode.h)
CH = r"(?:'(?:\\.[^']*|[^'\\])'|\(uint8_t\)\(tokens\[i\]\))"
_OPS = {"==": "VEC_EQ", "<=": "VEC_LE", "<": "VEC_LT"}
SIMD_RULES = [
    ("simd8x64-load", r"\b(?:const )?simd8x64<uint8_t> (\w+)\((\w+)\);", r"const simd8x64_u8 \1 = simd8x64_load(\2);"),
    ("simd8x64-eqv", r"(?s)\b(\w+)\.eq\(\{(.*?)\}\)", r"simd8x64_eqv(\1, \2)"),
    ("simd8x64-eq", r"\b(\w+)\.eq\(([^(){};]+)\)", r"simd8x64_eq(\1, \2)"),
    ("simd8x64-chunk", r"\b(\w+)\.chunks\[(\d)\]", r"simd8x64_chunk256(\1, \2)"),
    ("repeat16", r"simd256<uint8_t>::repeat_16\(", r"simd256_repeat_16("),
    ("vec-load", r"\b(const )?(VecUint8Type|VecType) (\w+)\(([^;]+)\);", r"\1\2 \3 = VEC_LOAD(\4);"),
    ("vec256-load", r"\bsimd256<uint8_t> (\w+)\(([^;]+)\);", r"m256 \1 = _mm256_loadu_si256((const m256 *)(\2));"),
    ("vec128-load", r"\bsimd128<uint8_t> (\w+)\(([^;]+)\);", r"m128 \1 = _mm_loadu_si128((const m128 *)(\2));"),
    ("vecbool-splat", r"\bVecBoolType (\w+)\((false|true)\);", r"VecBoolType \1 = VEC_SPLAT_BOOL(\2);"),
    ("vec-or-assign", r"\b(\w+) \|= \((\w+) == (" + CH + r")\);", r"\1 = VEC_OR(\1, VEC_EQ(\2, \3));"),
    ("vec-cmp", r"\((v) (==|<=|<) (" + CH + r")\)", lambda m: "%s(%s, %s)" % (_OPS[m.group(2)], m.group(1), m.group(3))),
    ("vec-or3-bitmask", r"\((VEC_\w+\([^()]*\)) \| (VEC_\w+\([^()]*\)) \| (VEC_\w+\([^()]*\))\)\.to_bitmask\(\)",
     r"VEC_TO_BITMASK(VEC_OR(VEC_OR(\1, \2), \3))"),
    ("vec-call-bitmask", r"(VEC_\w+\([^()]*\))\.to_bitmask\(\)", r"VEC_TO_BITMASK(\1)"),
    ("vec-var-bitmask", r"\b(\w+)\.to_bitmask\(\)", r"VEC_TO_BITMASK(\1)"),
    ("vec-store", r"\b(\w+)\.store\(([^;]+)\);", r"VEC_STORE(\1, \2);"),
    ("getescaped-inst", r"\bGetEscaped<(\w+)>\(", r"GETESCAPED(\1)("),
]

# ------------------------------------------------------------------ skip.inc.h (shared x86 kernels; instantiated by VEC_LEN)
SK = A + "common/x86_common/skip.inc.h"
MAXLEN = "0x7fffffff"

UNITS["GetStringBits"] = dict(
    file=SK, anchor=r"sonic_force_inline uint64_t GetStringBits\(", rules=SIMD_RULES,
    must_fire=["simd8x64-load", "simd8x64-eq", "getescaped-inst"],
    callmacro="#define GetStringBits(d, pi, pe) (GetStringBits)(d, &(pi), &(pe))")

_GNT_LOOPS = {
    0: """__CPROVER_assigns(pos)
__CPROVER_loop_invariant(__CPROVER_loop_entry(pos) <= pos && pos <= len)
__CPROVER_loop_invariant(!(__CPROVER_loop_entry(pos) <= ghost_k && ghost_k < pos) || !SPEC_IS_TOKEN(data[ghost_k]))
__CPROVER_decreases(len - pos)""",
    2: """__CPROVER_assigns(pos)
__CPROVER_loop_invariant(__CPROVER_loop_entry(pos) <= pos && pos <= len)
__CPROVER_loop_invariant(!(__CPROVER_loop_entry(pos) <= ghost_k && ghost_k < pos) || !SPEC_IS_TOKEN(data[ghost_k]))
__CPROVER_decreases(len - pos)""",
}
for n in (3, 4):
    UNITS["GetNextToken_%d" % n] = dict(
        file=SK, anchor=r"sonic_force_inline uint8_t GetNextToken\(", cname="GetNextToken_%d" % n,
        tparams={"N": str(n)}, rules=SIMD_RULES, nloops=4, loops=_GNT_LOOPS,
        must_fire=["vec-load", "vecbool-splat", "vec-or-assign", "vec-var-bitmask"])

UNITS["skip_space_safe"] = dict(
    file=SK, anchor=r"sonic_force_inline uint8_t skip_space_safe\(", nloops=2,
    callmacro="#define skip_space_safe(d, p, l, e, b) (skip_space_safe)(d, &(p), l, &(e), &(b))",
    contract="""
__CPROVER_requires(len <= MAXLEN && __CPROVER_is_fresh(data, len))
__CPROVER_requires(__CPROVER_is_fresh(pos__r, sizeof(size_t)) && *pos__r <= len)
__CPROVER_requires(__CPROVER_is_fresh(nonspace_bits_end__r, sizeof(size_t)))
__CPROVER_requires(__CPROVER_is_fresh(nonspace_bits__r, sizeof(uint64_t)))
__CPROVER_requires(GHOSTS_OF(data, len))
__CPROVER_requires(WF_CACHE(*pos__r, len, *nonspace_bits_end__r))
__CPROVER_requires(CACHE_AGREES_AT(*nonspace_bits_end__r, *nonspace_bits__r, ghost_k, ghost_vk))
__CPROVER_requires(CACHE_AGREES_AT(*nonspace_bits_end__r, *nonspace_bits__r, ghost_j, ghost_vj))
__CPROVER_assigns(*pos__r, *nonspace_bits_end__r, *nonspace_bits__r)
/* C11: stays inside the input, position is monotone and never passes len */
__CPROVER_ensures(*pos__r >= __CPROVER_old(*pos__r) && *pos__r <= len)
__CPROVER_ensures(__CPROVER_old(*pos__r) >= len || (*pos__r > __CPROVER_old(*pos__r) && __CPROVER_return_value == data[*pos__r - 1]))
/* scanner state stays well-formed and the cached bitmap keeps describing the buffer */
__CPROVER_ensures(WF_CACHE(*pos__r, len, *nonspace_bits_end__r))
__CPROVER_ensures(CACHE_AGREES_AT(*nonspace_bits_end__r, *nonspace_bits__r, ghost_k, ghost_vk))
__CPROVER_ensures(CACHE_AGREES_AT(*nonspace_bits_end__r, *nonspace_bits__r, ghost_j, ghost_vj))
/* functional: everything skipped is RFC 8259 whitespace, and the byte returned is the first non-space (or the input ended) */
__CPROVER_ensures(!(__CPROVER_old(*pos__r) <= ghost_k && ghost_k + 1 < *pos__r) || SPEC_IS_SPACE(ghost_vk))
__CPROVER_ensures(__CPROVER_old(*pos__r) >= len || *pos__r == len || *pos__r - 1 != ghost_j || !SPEC_IS_SPACE(ghost_vj))
""",
    loops={
        0: """__CPROVER_assigns(pos, nonspace, nonspace_bits_end, nonspace_bits)
__CPROVER_loop_invariant(__CPROVER_loop_entry(pos) <= pos && pos <= len)
__CPROVER_loop_invariant(nonspace_bits_end == __CPROVER_loop_entry(nonspace_bits_end) && nonspace_bits == __CPROVER_loop_entry(nonspace_bits))
__CPROVER_loop_invariant(!(__CPROVER_loop_entry(pos) <= ghost_k && ghost_k < pos) || SPEC_IS_SPACE(ghost_vk))
__CPROVER_decreases(len - pos)""",
        1: """__CPROVER_assigns(pos)
__CPROVER_loop_invariant(__CPROVER_loop_entry(pos) <= pos && pos <= len)
__CPROVER_loop_invariant(!(__CPROVER_loop_entry(pos) <= ghost_k && ghost_k < pos) || SPEC_IS_SPACE(ghost_vk))
__CPROVER_decreases(len - pos)""",
    })

for arch in ("avx2", "sse"):
    UNITS["%s.GetNonSpaceBits" % arch] = dict(
        file=A + arch + "/unicode.h", anchor=r"sonic_force_inline uint64_t GetNonSpaceBits\(", rules=SIMD_RULES,
        autos={"whitespace_table": "m256"} if arch == "avx2" else {},
        must_fire=(["simd8x64-load", "simd8x64-eqv", "repeat16", "simd8x64-chunk"] if arch == "avx2" else []))
