"""units.py — which text is sliced from /repo, how it is lowered to C, and the contracts.

Every entry: file (relative to /repo), anchor (regex, must match exactly once unless nth is
given), kind (func|table|struct|enum|macro), optional lowering rules (name, regex, repl),
must_fire (rule names that have to fire), tparams (template parameter -> value), autos
(variable -> C type for `auto`), fields/self (member functions), nloops + loops (loop
contracts by loop ordinal), contract (function contract text placed on a forward
declaration), callmacro (call-site adapter for by-reference parameters).
"""
A = "include/sonic/internal/arch/"
UNITS = {}

# ------------------------------------------------------------------ error codes
UNITS["error_enum"] = dict(
    file="include/sonic/error.h", anchor=r"enum SonicError \{", kind="enum",
    rules=[("enum-typedef", r"^enum SonicError \{", "typedef enum SonicError {"),
           ("enum-typedef-end", r"\};\s*$", "} SonicError;")],
    must_fire=["enum-typedef", "enum-typedef-end"])

# ------------------------------------------------------------------ unicode_common.h
UC = A + "common/unicode_common.h"
UNITS["digit_to_val32"] = dict(file=UC, anchor=r"static const uint32_t digit_to_val32\[886\] = \{", kind="table")
UNITS["hex_to_u32_nocheck"] = dict(file=UC, anchor=r"static inline uint32_t hex_to_u32_nocheck\(")
UNITS["codepoint_to_utf8"] = dict(file=UC, anchor=r"sonic_force_inline size_t codepoint_to_utf8\(")
UNITS["handle_unicode_codepoint"] = dict(file=UC, anchor=r"sonic_force_inline bool handle_unicode_codepoint\(")
for bs in (16, 32, 64):
    UNITS["GetEscaped_%d" % bs] = dict(
        file=UC, anchor=r"sonic_force_inline uint64_t GetEscaped\(", cname="GetEscaped_%d" % bs,
        tparams={"BLOCK_SIZE": str(bs)},
        callmacro="#define GetEscaped_%d(pe, bs) (GetEscaped_%d)(&(pe), bs)" % (bs, bs))

# ------------------------------------------------------------------ quote_tables.h
QT = A + "common/quote_tables.h"
UNITS["kEscapedMap"] = dict(file=QT, anchor=r"static const uint8_t kEscapedMap\[256\] = \{", kind="table")
UNITS["QuotedChar"] = dict(file=QT, anchor=r"struct QuotedChar \{", kind="struct")
UNITS["kQuoteTab"] = dict(file=QT, anchor=r"static const struct QuotedChar kQuoteTab\[256\] = \{", kind="table")
UNITS["kNeedEscaped"] = dict(file=QT, anchor=r"static const bool kNeedEscaped\[256\] = \{", kind="table")
