"""units.py — which text is sliced from /repo, how it is lowered to C, and the contracts.

Every entry: file (relative to /repo), anchor (regex, must match exactly once unless nth is
given), kind (func|table|struct|enum|macro), optional lowering rules (name, regex, repl),
must_fire (rule names that have to fire), tparams (template parameter -> value), autos
(variable -> C type for `auto`), fields/self (member functions), nloops + loops (loop
contracts by loop ordinal), contract (function contract text placed on a forward
declaration), callmacro (call-site adapter for by-reference parameters).
"""
A = "include/sonic/internal/arch/"
UNITS = {}

# ------------------------------------------------------------------ error codes
UNITS["error_enum"] = dict(
    file="include/sonic/error.h", anchor=r"enum SonicError \{", kind="enum",
    rules=[("enum-typedef", r"^enum SonicError \{", "typedef enum SonicError {"),
           ("enum-typedef-end", r"\};\s*$", "} SonicError;")],
    must_fire=["enum-typedef", "enum-typedef-end"])

# ------------------------------------------------------------------ unicode_common.h
UC = A + "common/unicode_common.h"
UNITS["digit_to_val32"] = dict(file=UC, anchor=r"static const uint32_t digit_to_val32\[886\] = \{", kind="table")
UNITS["hex_to_u32_nocheck"] = dict(file=UC, anchor=r"static inline uint32_t hex_to_u32_nocheck\(")
UNITS["codepoint_to_utf8"] = dict(file=UC, anchor=r"sonic_force_inline size_t codepoint_to_utf8\(")
UNITS["handle_unicode_codepoint"] = dict(file=UC, anchor=r"sonic_force_inline bool handle_unicode_codepoint\(")
for bs in (16, 32, 64):
    UNITS["GetEscaped_%d" % bs] = dict(
        file=UC, anchor=r"sonic_force_inline uint64_t GetEscaped\(", cname="GetEscaped_%d" % bs,
        tparams={"BLOCK_SIZE": str(bs)},
        callmacro="#define GetEscaped_%d(pe, bs) (GetEscaped_%d)(&(pe), bs)" % (bs, bs))

# ------------------------------------------------------------------ quote_tables.h
QT = A + "common/quote_tables.h"
UNITS["kEscapedMap"] = dict(file=QT, anchor=r"static const uint8_t kEscapedMap\[256\] = \{", kind="table")
UNITS["QuotedChar"] = dict(file=QT, anchor=r"struct QuotedChar \{", kind="struct")
UNITS["kQuoteTab"] = dict(file=QT, anchor=r"static const struct QuotedChar kQuoteTab\[256\] = \{", kind="table")
UNITS["kNeedEscaped"] = dict(file=QT, anchor=r"static const bool kNeedEscaped\[256\] = \{", kind="table")

# ------------------------------------------------------------------ utils.h, base.h (both arches)
UNITS["IsSpace"] = dict(file="include/sonic/internal/utils.h", anchor=r"static sonic_force_inline bool IsSpace\(")
for arch in ("avx2", "sse"):
    B = A + arch + "/base.h"
    for fn, rt in (("TrailingZeroes", "int"), ("LeadingZeroes", "int"), ("CountOnes", "long long int"), ("PrefixXor", "uint64_t")):
        UNITS["%s.%s" % (arch, fn)] = dict(
            file=B, anchor=r"sonic_force_inline %s %s\(" % (rt.replace(" ", r"\s+"), fn),
            rules=[("set1-char", r"_mm_set1_epi8\('\\xFF'\)", r"_mm_set1_epi8((char)0xFF)")] if fn == "PrefixXor" else [])

# ------------------------------------------------------------------ SIMD wrapper idioms (skip.inc.h, quote.inc.h, unicode.h)
CH = r"(?:'(?:\\.[^']*|[^'\\])'|\(uint8_t\)\(tokens\[i\]\))"
_OPS = {"==": "VEC_EQ", "<=": "VEC_LE", "<": "VEC_LT"}
SIMD_RULES = [
    ("simd8x64-load", r"\b(?:const )?simd8x64<uint8_t> (\w+)\((\w+)\);", r"const simd8x64_u8 \1 = simd8x64_load(\2);"),
    ("simd8x64-eqv", r"(?s)\b(\w+)\.eq\(\{(.*?)\}\)", r"simd8x64_eqv(\1, \2)"),
    ("simd8x64-eq", r"\b(\w+)\.eq\(([^(){};]+)\)", r"simd8x64_eq(\1, \2)"),
    ("simd8x64-chunk", r"\b(\w+)\.chunks\[(\d)\]", r"simd8x64_chunk256(\1, \2)"),
    ("repeat16", r"simd256<uint8_t>::repeat_16\(", r"simd256_repeat_16("),
    ("vec-load", r"\b(const )?(VecUint8Type|VecType) (\w+)\(([^;]+)\);", r"\1\2 \3 = VEC_LOAD(\4);"),
    ("vec256-load", r"\bsimd256<uint8_t> (\w+)\(([^;]+)\);", r"m256 \1 = _mm256_loadu_si256((const m256 *)(\2));"),
    ("vec128-load", r"\bsimd128<uint8_t> (\w+)\(([^;]+)\);", r"m128 \1 = _mm_loadu_si128((const m128 *)(\2));"),
    ("vecbool-splat", r"\bVecBoolType (\w+)\((false|true)\);", r"VecBoolType \1 = VEC_SPLAT_BOOL(\2);"),
    ("vec-or-assign", r"\b(\w+) \|= \((\w+) == (" + CH + r")\);", r"\1 = VEC_OR(\1, VEC_EQ(\2, \3));"),
    ("vec-cmp", r"\((v) (==|<=|<) (" + CH + r")\)", lambda m: "%s(%s, %s)" % (_OPS[m.group(2)], m.group(1), m.group(3))),
    ("vec-or3-bitmask", r"\((VEC_\w+\([^()]*\)) \| (VEC_\w+\([^()]*\)) \| (VEC_\w+\([^()]*\))\)\.to_bitmask\(\)",
     r"VEC_TO_BITMASK(VEC_OR(VEC_OR(\1, \2), \3))"),
    ("vec-call-bitmask", r"(VEC_\w+\([^()]*\))\.to_bitmask\(\)", r"VEC_TO_BITMASK(\1)"),
    ("vec-var-bitmask", r"\b(\w+)\.to_bitmask\(\)", r"VEC_TO_BITMASK(\1)"),
    ("vec-store", r"\b(\w+)\.store\(([^;]+)\);", r"VEC_STORE(\1, \2);"),
    ("getescaped-inst", r"\bGetEscaped<(\w+)>\(", r"GETESCAPED(\1)("),
]

# ------------------------------------------------------------------ skip.inc.h (shared x86 kernels; instantiated by VEC_LEN)
SK = A + "common/x86_common/skip.inc.h"
MAXLEN = "0x7fffffff"

UNITS["GetStringBits"] = dict(
    file=SK, anchor=r"sonic_force_inline uint64_t GetStringBits\(", rules=SIMD_RULES,
    must_fire=["simd8x64-load", "simd8x64-eq", "getescaped-inst"],
    callmacro="#define GetStringBits(d, pi, pe) (GetStringBits)(d, &(pi), &(pe))")

SCAN_REQ = """__CPROVER_requires(len <= MAXLEN && __CPROVER_is_fresh(data, len))
__CPROVER_requires(__CPROVER_rw_ok(pos__r, sizeof(size_t)) && *pos__r <= len)
__CPROVER_requires(GHOSTS_OF(data, len))"""

_GNT_INV = """__CPROVER_assigns(pos)
__CPROVER_loop_invariant(__CPROVER_loop_entry(pos) <= pos && pos <= len)
__CPROVER_loop_invariant(!(__CPROVER_loop_entry(pos) <= ghost_k && ghost_k < pos) || !SPEC_IS_TOKEN(ghost_vk, tokens, N))
__CPROVER_decreases(len - pos)"""
for n in (3, 4):
    UNITS["GetNextToken_%d" % n] = dict(
        file=SK, anchor=r"sonic_force_inline uint8_t GetNextToken\(", cname="GetNextToken_%d" % n,
        tparams={"N": str(n)}, rules=SIMD_RULES, nloops=4, loops={0: _GNT_INV, 2: _GNT_INV},
        must_fire=["vec-load", "vecbool-splat", "vec-or-assign", "vec-var-bitmask"],
        contract=SCAN_REQ + """
__CPROVER_requires(__CPROVER_is_fresh(tokens, N) && tokens[0] > 0 && tokens[1] > 0 && (N == 3 || tokens[2] > 0))
__CPROVER_assigns(*pos__r)
/* C11: stays inside the input; position monotone */
__CPROVER_ensures(*pos__r >= __CPROVER_old(*pos__r) && *pos__r <= len)
/* found: pos' is the index of the token byte that is returned; not found: 0 and pos' == len */
__CPROVER_ensures(__CPROVER_return_value == 0 || (*pos__r < len && data[*pos__r] == __CPROVER_return_value && SPEC_IS_TOKEN(__CPROVER_return_value, tokens, N)))
__CPROVER_ensures(__CPROVER_return_value != 0 || *pos__r == len)
/* functional: no token byte was skipped (ghost index) */
__CPROVER_ensures(!(__CPROVER_old(*pos__r) <= ghost_k && ghost_k < *pos__r) || !SPEC_IS_TOKEN(ghost_vk, tokens, N))
""")

UNITS["SkipString"] = dict(
    file=SK, anchor=r"sonic_force_inline int SkipString\(", rules=SIMD_RULES, nloops=2,
    must_fire=["vec-load", "vec-cmp", "vec-call-bitmask", "getescaped-inst", "local-const-static"],
    callmacro="#define SkipString(d, p, l) (SkipString)(d, &(p), l)",
    loops={
        0: """__CPROVER_assigns(pos, bs_bits, quote_bits, escaped, prev_escaped, found)
__CPROVER_loop_invariant(__CPROVER_loop_entry(pos) <= pos && pos <= len && prev_escaped <= 1)
__CPROVER_decreases(len - pos)""",
        1: """__CPROVER_assigns(pos, found)
__CPROVER_loop_invariant(__CPROVER_loop_entry(pos) <= pos && pos <= len + 1)
__CPROVER_decreases(len + 1 - pos)""",
    },
    contract=SCAN_REQ + """
__CPROVER_assigns(*pos__r)
__CPROVER_ensures(__CPROVER_return_value == 0 || __CPROVER_return_value == 1 || __CPROVER_return_value == 2)
/* C11: on success pos' is one past a quote inside the input; on failure at most one past the end */
__CPROVER_ensures(*pos__r >= __CPROVER_old(*pos__r))
__CPROVER_ensures(__CPROVER_return_value == 0 || (*pos__r > __CPROVER_old(*pos__r) && *pos__r <= len && data[*pos__r - 1] == '"'))
__CPROVER_ensures(__CPROVER_return_value != 0 || *pos__r <= len + 1)
""")

_SC_INNER = ("""__CPROVER_assigns(rbrace, rbrace_num, lbrace_num, pos)
__CPROVER_loop_invariant(pos == __CPROVER_loop_entry(pos))
__CPROVER_loop_invariant(rbrace_num >= __CPROVER_loop_entry(rbrace_num) && rbrace_num - __CPROVER_loop_entry(rbrace_num) <= 64)
__CPROVER_loop_invariant(rbrace_num - __CPROVER_loop_entry(rbrace_num) == 64 ? rbrace == 0 : (rbrace & ((1ULL << (rbrace_num - __CPROVER_loop_entry(rbrace_num))) - 1)) == 0)
__CPROVER_loop_invariant((rbrace & ~__CPROVER_loop_entry(rbrace)) == 0)
__CPROVER_decreases(rbrace)""", True)
UNITS["SkipContainer"] = dict(
    # the repo's debug assertion rbrace_num == lbrace_num + 1 is compiled out (NDEBUG semantics): proving it needs
    # popcount-monotonicity invariants that made the query take > 20 min; it is not part of any claimed property
    rules_post=[("sonic-assert-off", r"sonic_assert\(rbrace_num == lbrace_num \+ 1\);", "/* sonic_assert(rbrace_num == lbrace_num + 1): not checked */")],
    file=SK, anchor=r"sonic_force_inline bool SkipContainer\(", rules=SIMD_RULES, nloops=3,
    must_fire=["simd8x64-load", "simd8x64-eq"],
    callmacro="#define SkipContainer(d, p, l, lb, rb) (SkipContainer)(d, &(p), l, lb, rb)",
    loops={
        0: """__CPROVER_assigns(pos, p, prev_instring, prev_escaped, instring, rbrace_num, lbrace_num, last_lbrace_num)
__CPROVER_loop_invariant(__CPROVER_loop_entry(pos) <= pos && pos <= len)
__CPROVER_loop_invariant(0 <= rbrace_num && rbrace_num <= pos)
__CPROVER_decreases(len - pos)""",
        2: _SC_INNER,
    },
    contract=SCAN_REQ.replace("len <= MAXLEN", "len <= MAXLEN - 64") + """
__CPROVER_requires((left == '[' && right == ']') || (left == '{' && right == '}'))
__CPROVER_assigns(*pos__r)
/* C11: position monotone and never beyond the input, closed or not */
__CPROVER_ensures(*pos__r >= __CPROVER_old(*pos__r) && *pos__r <= len)
__CPROVER_ensures(!__CPROVER_return_value || *pos__r > __CPROVER_old(*pos__r))
""")

SC = A + "common/skip_common.h"
UNITS["EqBytes4"] = dict(file=SC, anchor=r"static sonic_force_inline bool EqBytes4\(",
                         rules=[("static-assert", r"static_assert\([^;]*;", "")])
UNITS["SkipLiteral"] = dict(
    # `start + 4 <= end` forms a pointer up to 3 bytes past one-past-the-end; it is compared, never dereferenced
    check_disable=["pointer", "pointer-overflow"],
    file=SC, anchor=r"sonic_force_inline bool SkipLiteral\(", autos={"start": "const uint8_t *", "end": "const uint8_t *"},
    callmacro="#define SkipLiteral(d, p, l, t) (SkipLiteral)(d, &(p), l, t)",
    contract="""__CPROVER_requires(len <= MAXLEN && __CPROVER_is_fresh(data, len))
__CPROVER_requires(__CPROVER_rw_ok(pos__r, sizeof(size_t)) && *pos__r >= 1 && *pos__r <= len)
__CPROVER_assigns(*pos__r)
__CPROVER_ensures(*pos__r >= __CPROVER_old(*pos__r) && *pos__r <= len)
__CPROVER_ensures(!__CPROVER_return_value || *pos__r == __CPROVER_old(*pos__r) + (token == 'f' ? 4 : 3))
""")

UNITS["skip_space_safe"] = dict(
    file=SK, anchor=r"sonic_force_inline uint8_t skip_space_safe\(", nloops=2,
    callmacro="#define skip_space_safe(d, p, l, e, b) (skip_space_safe)(d, &(p), l, &(e), &(b))",
    contract="""
__CPROVER_requires(len <= MAXLEN && __CPROVER_is_fresh(data, len))
__CPROVER_requires(__CPROVER_rw_ok(pos__r, sizeof(size_t)) && *pos__r <= len)
__CPROVER_requires(__CPROVER_rw_ok(nonspace_bits_end__r, sizeof(size_t)))
__CPROVER_requires(__CPROVER_rw_ok(nonspace_bits__r, sizeof(uint64_t)))
__CPROVER_requires(GHOSTS_OF(data, len))
__CPROVER_requires(WF_CACHE(*pos__r, len, *nonspace_bits_end__r))
__CPROVER_requires(CACHE_AGREES_AT(*nonspace_bits_end__r, *nonspace_bits__r, ghost_k, ghost_vk))
__CPROVER_requires(CACHE_AGREES_AT(*nonspace_bits_end__r, *nonspace_bits__r, ghost_j, ghost_vj))
__CPROVER_assigns(*pos__r, *nonspace_bits_end__r, *nonspace_bits__r)
/* C11: stays inside the input, position is monotone and never passes len */
__CPROVER_ensures(*pos__r >= __CPROVER_old(*pos__r) && *pos__r <= len)
__CPROVER_ensures(__CPROVER_old(*pos__r) >= len || *pos__r > __CPROVER_old(*pos__r))
__CPROVER_ensures(*pos__r == 0 ? __CPROVER_return_value == ' ' : __CPROVER_return_value == data[*pos__r - 1])
/* scanner state stays well-formed and the cached bitmap keeps describing the buffer */
__CPROVER_ensures(WF_CACHE(*pos__r, len, *nonspace_bits_end__r))
__CPROVER_ensures(CACHE_AGREES_AT(*nonspace_bits_end__r, *nonspace_bits__r, ghost_k, ghost_vk))
__CPROVER_ensures(CACHE_AGREES_AT(*nonspace_bits_end__r, *nonspace_bits__r, ghost_j, ghost_vj))
/* functional: everything skipped is RFC 8259 whitespace, and the byte returned is the first non-space (or the input ended) */
__CPROVER_ensures(!(__CPROVER_old(*pos__r) <= ghost_k && ghost_k + 1 < *pos__r) || SPEC_IS_SPACE(ghost_vk))
__CPROVER_ensures(__CPROVER_old(*pos__r) >= len || *pos__r == len || *pos__r - 1 != ghost_j || !SPEC_IS_SPACE(ghost_vj))
""",
    loops={
        0: """__CPROVER_assigns(pos, nonspace, nonspace_bits_end, nonspace_bits)
__CPROVER_loop_invariant(__CPROVER_loop_entry(pos) <= pos && pos <= len)
__CPROVER_loop_invariant(nonspace_bits_end == __CPROVER_loop_entry(nonspace_bits_end) && nonspace_bits == __CPROVER_loop_entry(nonspace_bits))
__CPROVER_loop_invariant(!(__CPROVER_loop_entry(pos) <= ghost_k && ghost_k < pos) || SPEC_IS_SPACE(ghost_vk))
__CPROVER_decreases(len - pos)""",
        1: """__CPROVER_assigns(pos)
__CPROVER_loop_invariant(__CPROVER_loop_entry(pos) <= pos && pos <= len)
__CPROVER_loop_invariant(!(__CPROVER_loop_entry(pos) <= ghost_k && ghost_k < pos) || SPEC_IS_SPACE(ghost_vk))
__CPROVER_decreases(len - pos)""",
    })

for arch in ("avx2", "sse"):
    UNITS["%s.GetNonSpaceBits" % arch] = dict(
        file=A + arch + "/unicode.h", anchor=r"sonic_force_inline uint64_t GetNonSpaceBits\(", rules=SIMD_RULES,
        autos={"whitespace_table": "m256"} if arch == "avx2" else {},
        must_fire=(["simd8x64-load", "simd8x64-eqv", "repeat16", "simd8x64-chunk"] if arch == "avx2" else []))

# ------------------------------------------------------------------ simd_skip.h: forwarders and SkipScanner members
SS = A + "simd_skip.h"
UNITS["SkipArray"] = dict(file=SS, anchor=r"static bool SkipArray\(", callmacro="#define SkipArray(d, p, l) (SkipArray)(d, &(p), l)")
UNITS["SkipObject"] = dict(file=SS, anchor=r"static bool SkipObject\(", callmacro="#define SkipObject(d, p, l) (SkipObject)(d, &(p), l)")
UNITS["SkipNumber"] = dict(file=SS, anchor=r"static uint8_t SkipNumber\(", callmacro="#define SkipNumber(d, p, l) (SkipNumber)(d, &(p), l)")
_SCN = dict(self="SkipScanner", fields=["nonspace_bits_end_", "nonspace_bits_"])
SCANNER_REQ = """__CPROVER_requires(len <= MAXLEN - 64 && __CPROVER_is_fresh(data, len))
__CPROVER_requires(__CPROVER_rw_ok(pos__r, sizeof(size_t)) && *pos__r <= len)
__CPROVER_requires(__CPROVER_rw_ok(self, sizeof(SkipScanner)))
__CPROVER_requires(GHOSTS_OF(data, len))
__CPROVER_requires(WF_SCANNER_V(self->nonspace_bits_end_, self->nonspace_bits_, *pos__r, len))"""
UNITS["SkipScanner.SkipSpaceSafe"] = dict(
    file=SS, anchor=r"sonic_force_inline uint8_t SkipSpaceSafe\(", cname="SkipScanner_SkipSpaceSafe",
    callmacro="#define SkipSpaceSafe(d, p, l) (SkipScanner_SkipSpaceSafe)(self, d, &(p), l)", **_SCN)
UNITS["SkipScanner.GetArrayElem"] = dict(
    file=SS, anchor=r"sonic_force_inline SonicError GetArrayElem\(", cname="SkipScanner_GetArrayElem", nloops=1,
    callmacro="#define GetArrayElem(d, p, l, i) (SkipScanner_GetArrayElem)(self, d, &(p), l, i)",
    loops={0: """__CPROVER_assigns(index, pos, nonspace_bits_end_, nonspace_bits_)
__CPROVER_loop_invariant(__CPROVER_loop_entry(pos) <= pos && pos <= len && WF_SCANNER_V(nonspace_bits_end_, nonspace_bits_, pos, len))
__CPROVER_loop_invariant(index >= 0 && index <= __CPROVER_loop_entry(index))
__CPROVER_decreases(index)"""},
    contract=SCANNER_REQ + """
__CPROVER_assigns(*pos__r, self->nonspace_bits_end_, self->nonspace_bits_)
__CPROVER_ensures(*pos__r >= __CPROVER_old(*pos__r) && *pos__r <= len + 1 && WF_SCANNER_V(self->nonspace_bits_end_, self->nonspace_bits_, *pos__r, len))
__CPROVER_ensures(__CPROVER_return_value != kErrorNone || *pos__r <= len)
__CPROVER_ensures(__CPROVER_return_value == kErrorNone || __CPROVER_return_value == kParseErrorInvalidChar || __CPROVER_return_value == kParseErrorArrIndexOutOfRange)
""", **_SCN)
UNITS["SkipScanner.SkipOne"] = dict(
    file=SS, anchor=r"sonic_force_inline long SkipOne\(", cname="SkipScanner_SkipOne",
    callmacro="#define SkipOne(d, p, l) (SkipScanner_SkipOne)(self, d, &(p), l)",
    contract=SCANNER_REQ + """
__CPROVER_assigns(*pos__r, self->nonspace_bits_end_, self->nonspace_bits_)
/* C11: a non-negative result is the start of a slice [start, pos') inside the input */
__CPROVER_ensures(*pos__r >= __CPROVER_old(*pos__r) && *pos__r <= len + 1 && WF_SCANNER_V(self->nonspace_bits_end_, self->nonspace_bits_, *pos__r, len))
__CPROVER_ensures(__CPROVER_return_value < 0 || ((size_t)__CPROVER_return_value < *pos__r && *pos__r <= len))
__CPROVER_ensures(__CPROVER_return_value >= 0 || __CPROVER_return_value == -(long)kParseErrorInvalidChar)
""", **_SCN)

UNITS["SkipScanner.fields"] = dict(
    file=SS, anchor=r"size_t nonspace_bits_end_\{0\};", kind="span", end=r"uint64_t nonspace_bits_\{0\};",
    rules=[("brace-init", r"\{0\};", ";")], must_fire=["brace-init"])

# ------------------------------------------------------------------ StringBlock (avx2/unicode.h, sse/unicode.h) and quote.inc.h
SB_RULES = SIMD_RULES + [
    ("return-brace", r"\breturn \{", "return (StringBlock){"),
    ("member-call-self", r"(?<![\w.>])(HasUnescaped|HasQuoteFirst|HasBackslash)\(\)", r"StringBlock_\1(self)"),
]
for arch in ("avx2", "sse"):
    UF = A + arch + "/unicode.h"
    UNITS["%s.StringBlock.fields" % arch] = dict(file=UF, anchor=r"uint32_t bs_bits;", kind="span", end=r"uint32_t unescaped_bits;")
    for m, rt in (("HasQuoteFirst", "bool"), ("HasBackslash", "bool"), ("HasUnescaped", "bool"),
                  ("QuoteIndex", "int"), ("BsIndex", "int"), ("UnescapedIndex", "int")):
        UNITS["%s.StringBlock.%s" % (arch, m)] = dict(
            file=UF, anchor=r"sonic_force_inline %s %s\(" % (rt, m), cname="StringBlock_" + m, self="StringBlock",
            fields=["bs_bits", "quote_bits", "unescaped_bits"], rules=SB_RULES)
    UNITS["%s.StringBlock.Find" % arch] = dict(
        file=UF, anchor=r"sonic_force_inline StringBlock StringBlock::Find\(", cname="StringBlock_Find", rtype="StringBlock",
        rules=SB_RULES, must_fire=["return-brace"] + (["vec256-load", "vec-cmp"] if arch == "avx2" else []))

QI = A + "common/x86_common/quote.inc.h"
PSI_RULES = SIMD_RULES + [
    ("sb-find", r"\bStringBlock::Find\(", "StringBlock_Find("),
    ("sb-member", r"\bblock\.(\w+)\(\)", r"StringBlock_\1(&block)"),
    ("sb-literal", r"\bStringBlock\{", "(StringBlock){"),
]
UNITS["parseStringInplace"] = dict(
    file=QI, anchor=r"sonic_force_inline size_t parseStringInplace\(", rules=PSI_RULES, nloops=3,
    autos={"block": "StringBlock", "bs_dist": "int"},
    must_fire=["sb-find", "sb-member", "sb-literal", "vec-load", "vec-store", "vec-cmp"],
    callmacro="#define parseStringInplace(s, e) (parseStringInplace)(&(s), &(e))")
UNITS["CopyAndGetEscapMask"] = dict(
    file=QI, anchor=r"static sonic_force_inline int CopyAndGetEscapMask\(", rules=SIMD_RULES,
    must_fire=["vec-load", "vec-store", "vec-or3-bitmask"])
UNITS["MOVE_N_CHARS"] = dict(file=QI, anchor=r"#define MOVE_N_CHARS\(src, N\)", kind="macro")

# ------------------------------------------------------------------ avx2/base.h: key comparison (C14)
AB = A + "avx2/base.h"
BZHI = ("asm-bzhi", r"(?s)__asm__\(\"bzhil\s+%1, %2, %\[result\]\\n\\t\"\s*:\s*\[result\] \"=r\"\((\w+)\)\s*:\s*\"r\"\(([^;]*?)\), \"r\"\((\w+)\)\);",
        r"\1 = (int)_bzhi_u32((unsigned)(\3), (unsigned)(\2));")
MEMCMP_RULES = [BZHI, ("builtin-memcmp", r"\b__builtin_memcmp\(", "memcmp(")]
# `movemask(...) + 1` is int arithmetic that wraps when lanes 0..30 agree and lane 31 differs; x86-64 compilers emit a
# wrapping add and the result is still correct, so the signed-overflow check is off inside these functions (observation job keeps it on)
UNITS["in_page_32"] = dict(file=AB, anchor=r"static sonic_force_inline bool in_page_32\(")
UNITS["cmp_lt_32"] = dict(file=AB, anchor=r"static sonic_force_inline int cmp_lt_32\(", rules=MEMCMP_RULES, must_fire=["asm-bzhi", "auto-cast"],
                          check_disable=["signed-overflow"])
UNITS["is_eq_lt_32_cross_page"] = dict(file=AB, anchor=r"static inline bool is_eq_lt_32_cross_page\(", rules=MEMCMP_RULES, must_fire=["builtin-memcmp"])
UNITS["is_eq_lt_32"] = dict(file=AB, anchor=r"static sonic_force_inline bool is_eq_lt_32\(", rules=MEMCMP_RULES, must_fire=["asm-bzhi"],
                            check_disable=["signed-overflow"])
PAGE_REQ = """__CPROVER_requires(__CPROVER_r_ok(_a, s) && __CPROVER_r_ok(_b, s) && (s >= 32 || (PAGE_RANGE(_a, s) && PAGE_RANGE(_b, s))))"""
UNITS["avx2.InlinedMemcmpEq"] = dict(
    file=AB, anchor=r"sonic_force_inline bool InlinedMemcmpEq\(", rules=MEMCMP_RULES, nloops=1, check_disable=["signed-overflow"],
    loops={0: """__CPROVER_assigns(i, vec_a, vec_b)
__CPROVER_loop_invariant(32 <= i && (i & 31) == 0 && i <= avx2_end + 31)
__CPROVER_loop_invariant(!(32 <= ghost_k && ghost_k < i && ghost_k < avx2_end) || ghost_ak == ghost_bk)
__CPROVER_decreases(avx2_end + 32 - i)"""},
    contract=PAGE_REQ + """
__CPROVER_requires(s <= MAXLEN && MEM_GHOSTS(_a, _b, s))
__CPROVER_requires(!ghost_equal || RANGES_EQUAL_BY_CONSTRUCTION)
__CPROVER_assigns()
/* C14: true exactly when the two ranges have the same bytes: (=>) at every index k; (<=) for ranges built equal */
__CPROVER_ensures(!__CPROVER_return_value || !(ghost_k < s) || ghost_ak == ghost_bk)
__CPROVER_ensures(!ghost_equal || __CPROVER_return_value)
""")
UNITS["avx2.InlinedMemcmp"] = dict(
    file=AB, anchor=r"sonic_force_inline int InlinedMemcmp\(", rules=MEMCMP_RULES, nloops=1,
    loops={0: """__CPROVER_assigns(i, vec_l, vec_r, mask)
__CPROVER_loop_invariant(32 <= i && (i & 31) == 0 && i <= avx2_end + 31)
__CPROVER_loop_invariant(!(ghost_k < i && ghost_k < avx2_end) || ghost_ak == ghost_bk)
__CPROVER_decreases(avx2_end + 32 - i)"""},
    contract="""__CPROVER_requires(__CPROVER_r_ok(_l, s) && __CPROVER_r_ok(_r, s) && (s >= 32 || (PAGE_RANGE(_l, s) && PAGE_RANGE(_r, s))))
__CPROVER_requires(s <= MAXLEN && MEM_GHOSTS(_l, _r, s))
__CPROVER_assigns()
/* C14: zero only when the ranges are equal at every index (converse and sign of the first mismatch: bounded job C14.InlinedMemcmp.sign) */
__CPROVER_ensures(__CPROVER_return_value != 0 || !(ghost_k < s) || ghost_ak == ghost_bk)
""")
for fn, rt in (("InlinedMemcmpEq", "bool"), ("InlinedMemcmp", "int")):
    UNITS["sse." + fn] = dict(file=A + "sse/base.h", anchor=r"sonic_force_inline %s %s\(" % (rt, fn))

# ------------------------------------------------------------------ quoting (C09): quote_common.h, quote.inc.h
QC = A + "common/quote_common.h"
UNITS["DoEscape"] = dict(
    file=QC, anchor=r"sonic_static_inline void DoEscape\(", nloops=1,
    callmacro="#define DoEscape(s, d, n) (DoEscape)(&(s), &(d), &(n))",
    loops={0: """__CPROVER_assigns(src, dst, nb, __CPROVER_object_whole(dst))
__CPROVER_loop_invariant(1 <= nb && nb <= __CPROVER_loop_entry(nb))
__CPROVER_loop_invariant(__CPROVER_same_object(src, __CPROVER_loop_entry(src)) && __CPROVER_POINTER_OFFSET(src) == __CPROVER_POINTER_OFFSET(__CPROVER_loop_entry(src)) + (__CPROVER_loop_entry(nb) - nb))
__CPROVER_loop_invariant(__CPROVER_same_object(dst, __CPROVER_loop_entry(dst)) && __CPROVER_POINTER_OFFSET(dst) >= __CPROVER_POINTER_OFFSET(__CPROVER_loop_entry(dst)) + 2 * (__CPROVER_loop_entry(nb) - nb) && __CPROVER_POINTER_OFFSET(dst) <= __CPROVER_POINTER_OFFSET(__CPROVER_loop_entry(dst)) + 6 * (__CPROVER_loop_entry(nb) - nb))
__CPROVER_loop_invariant(SPEC_NEED_ESCAPE(*src))
__CPROVER_decreases(nb)"""},
    contract="""__CPROVER_requires(__CPROVER_rw_ok(src__r, sizeof(*src__r)) && __CPROVER_rw_ok(dst__r, sizeof(*dst__r)) && __CPROVER_rw_ok(nb__r, sizeof(*nb__r)))
__CPROVER_requires(1 <= *nb__r && *nb__r <= MAXLEN)
__CPROVER_requires(__CPROVER_r_ok(*src__r, *nb__r))
/* every escaped byte is written with one 8-byte store, the last one at most at dst + 6*(nb-1) */
__CPROVER_requires(__CPROVER_w_ok(*dst__r, 6 * *nb__r + 2))
/* call-site fact: the byte at *src needs an escape (its kQuoteTab entry is non-null) */
__CPROVER_requires(SPEC_NEED_ESCAPE(**src__r))
__CPROVER_assigns(*src__r, *dst__r, *nb__r, __CPROVER_object_upto(*dst__r, 6 * *nb__r + 2))
/* C09: consumes k >= 1 source bytes, emits between 2k and 6k bytes, stops at the first byte that needs no escape */
__CPROVER_ensures(*nb__r < __CPROVER_old(*nb__r))
__CPROVER_ensures(__CPROVER_same_object(*src__r, __CPROVER_old(*src__r)) && __CPROVER_POINTER_OFFSET(*src__r) == __CPROVER_POINTER_OFFSET(__CPROVER_old(*src__r)) + (__CPROVER_old(*nb__r) - *nb__r))
__CPROVER_ensures(__CPROVER_same_object(*dst__r, __CPROVER_old(*dst__r)))
__CPROVER_ensures(__CPROVER_POINTER_OFFSET(*dst__r) >= __CPROVER_POINTER_OFFSET(__CPROVER_old(*dst__r)) + 2 * (__CPROVER_old(*nb__r) - *nb__r))
__CPROVER_ensures(__CPROVER_POINTER_OFFSET(*dst__r) <= __CPROVER_POINTER_OFFSET(__CPROVER_old(*dst__r)) + 6 * (__CPROVER_old(*nb__r) - *nb__r))
__CPROVER_ensures(*nb__r == 0 || !SPEC_NEED_ESCAPE(**src__r))
""")

# Quote: an unbounded loop-contract proof was attempted (loop invariants on src/dst offsets, DoEscape / CopyAndGetEscapMask /
# memcpy by contract, pointer re-basing) and did not get through CBMC within 25 min / 24 GB (DESIGN section 8); the function
# contract below is therefore enforced with the loops unwound up to a stated bound (bounded stand-in).
UNITS["Quote"] = dict(
    file=QI, anchor=r"sonic_static_inline char \*Quote\(", rules=SIMD_RULES, nloops=2,
    contract="""__CPROVER_requires(nb <= MAXLEN && QUOTE_SRC_OK(src, nb))
/* the reservation made by the serializer: serialize.h Grow(len * 6 + 32 + 3) */
__CPROVER_requires(__CPROVER_w_ok(dst, 6 * nb + 32 + 3) && __CPROVER_POINTER_OFFSET(dst) == 0 && !__CPROVER_same_object(dst, src))
__CPROVER_assigns(__CPROVER_object_upto(dst, 6 * nb + 32 + 3))
/* C09: emitted length is between nb + 2 and 6 * nb + 2, delimited by quotes */
__CPROVER_ensures(__CPROVER_same_object(__CPROVER_return_value, dst))
__CPROVER_ensures(__CPROVER_POINTER_OFFSET(__CPROVER_return_value) >= nb + 2 && __CPROVER_POINTER_OFFSET(__CPROVER_return_value) <= 6 * nb + 2)
__CPROVER_ensures(dst[0] == '"' && __CPROVER_return_value[-1] == '"')
""")

# ------------------------------------------------------------------ allocator.h (C16)
AL = "include/sonic/allocator.h"
UNITS["SONIC_ALIGN"] = dict(file=AL, anchor=r"#define SONIC_ALIGN\(x\)", kind="macro")
UNITS["alloc.config"] = dict(file=AL, anchor=r"#ifdef SONIC_ADAPTIVE_MEMORYPOOL\n#define SONIC_MEMPOOL_CHUNK_POLICY", kind="span",
                             end=r"#define SONIC_ALLOCATOR_MIN_CHUNK_CAPACITY SONIC_ALLOCATOR_MAX_CHUNK_CAPACITY\n#endif\n#endif")
UNITS["ChunkHeader"] = dict(file=AL, anchor=r"struct ChunkHeader \{", kind="struct")
UNITS["SharedData"] = dict(file=AL, anchor=r"struct SharedData \{", kind="struct")
UNITS["alloc.sizeof"] = dict(file=AL, anchor=r"static const size_t SIZEOF_SHARED_DATA = ", kind="span", end=r"SONIC_ALIGN\(sizeof\(ChunkHeader\)\);",
                             no_default_rules=True, rules=[("sizeof-enum", r"static const size_t (\w+) = ([^;]+);", r"enum { \1 = \2 };")], must_fire=["sizeof-enum"])
UNITS["alloc.fields"] = dict(file=AL, anchor=r"ChunkPolicy cp_;", kind="span", end=r"SharedData\* shared_;")
UNITS["GetChunkHead"] = dict(file=AL, anchor=r"static inline ChunkHeader\* GetChunkHead\(")
UNITS["GetChunkBuffer"] = dict(file=AL, anchor=r"static inline uint8_t\* GetChunkBuffer\(")
for i, pol in enumerate(("Simple", "Adaptive")):
    UNITS["%sChunkPolicy.ChunkSize" % pol] = dict(
        file=AL, anchor=r"inline size_t ChunkSize\(", nth=i, cname="ChunkPolicy_ChunkSize", self="ChunkPolicy", fields=["min_chunk_size_"],
        contract="""__CPROVER_requires(__CPROVER_rw_ok(self, sizeof(*self)) && need_alloc_size >= 1 && need_alloc_size <= ALLOC_MAX + 8 && self->min_chunk_size_ <= ALLOC_MAX)
__CPROVER_assigns(self->min_chunk_size_)
/* C16: the chunk that is about to be created can hold the request */
__CPROVER_ensures(__CPROVER_return_value >= need_alloc_size && __CPROVER_return_value <= ALLOC_MAX + 8 && self->min_chunk_size_ <= ALLOC_MAX)
__CPROVER_ensures(__CPROVER_return_value == need_alloc_size || __CPROVER_return_value == self->min_chunk_size_)
""")
ALLOC_RULES = [
    ("base-malloc", r"baseAllocator_->Malloc\(", "BaseAllocator_Malloc(baseAllocator_, "),
    ("base-free", r"baseAllocator_->Free\(", "BaseAllocator_Free(baseAllocator_, "),
    ("new-base", r"new BaseAllocator\(\)", "BaseAllocator_new()"),
    ("delete-base", r"\bdelete (\w+);", r"BaseAllocator_delete(\1);"),
    ("cp-chunksize", r"cp_\.ChunkSize\(", "ChunkPolicy_ChunkSize(&cp_, "),
    ("if-decl", r"if \((\w+\s*\*)\s*(\w+) =\s*((?:[^()]|\((?:[^()]|\([^()]*\))*\))*)\) \{", r"\1 \2 = \3; if (\2) {"),
    ("this-dtor", r"this->~MemoryPoolAllocator\(\);", "MemoryPoolAllocator_dtor(self);"),
    ("return-this", r"return \*this;", "return self;"),
]
_MPA = dict(self="MemoryPoolAllocator", fields=["cp_", "baseAllocator_", "shared_"], rules=ALLOC_RULES)
# representation invariant of a pool (derived from the constructors): shared block valid, head chunk valid with its
# buffer of `capacity` bytes behind the 24-byte header, size <= capacity, size a multiple of 8, live refcount
UNITS["MemoryPoolAllocator.AddChunk"] = dict(file=AL, anchor=r"bool AddChunk\(", cname="MemoryPoolAllocator_AddChunk",
    callmacro="#define AddChunk(c) MemoryPoolAllocator_AddChunk(self, c)", must_fire=["base-malloc", "new-base", "if-decl"], **_MPA)
UNITS["MemoryPoolAllocator.Malloc"] = dict(file=AL, anchor=r"void\* Malloc\(", after=r"class MemoryPoolAllocator \{", cname="MemoryPoolAllocator_Malloc",
    callmacro="#define Malloc(n) MemoryPoolAllocator_Malloc(self, n)", must_fire=["cp-chunksize"],
    contract="""__CPROVER_requires(POOL_WF(self) && size <= ALLOC_MAX)
__CPROVER_assigns(self->shared_->chunkHead, self->shared_->chunkHead->size, self->shared_->ownBaseAllocator, self->baseAllocator_, self->cp_.min_chunk_size_)
/* C16: zero-size requests return null and change nothing */
__CPROVER_ensures(size != 0 || (__CPROVER_return_value == NULL && self->shared_->chunkHead == __CPROVER_old(self->shared_->chunkHead) && self->shared_->chunkHead->size == __CPROVER_old(self->shared_->chunkHead->size)))
/* C16: a non-null block is 8-byte aligned, lies wholly inside the (possibly new) head chunk right after what was handed out before */
__CPROVER_ensures(__CPROVER_return_value == NULL || (size != 0 && POOL_WF(self) &&
    __CPROVER_same_object(__CPROVER_return_value, self->shared_->chunkHead) &&
    (__CPROVER_POINTER_OFFSET(__CPROVER_return_value) & 7) == 0 &&
    self->shared_->chunkHead->size >= SONIC_ALIGN(size) &&
    __CPROVER_POINTER_OFFSET(__CPROVER_return_value) == __CPROVER_POINTER_OFFSET(self->shared_->chunkHead) + SIZEOF_CHUNK_HEADER + (self->shared_->chunkHead->size - SONIC_ALIGN(size)) &&
    self->shared_->chunkHead->size <= self->shared_->chunkHead->capacity))
/* either the old head chunk served it (bump), or a fresh chunk was pushed in front of the untouched old head */
__CPROVER_ensures(__CPROVER_return_value == NULL ||
    (self->shared_->chunkHead == __CPROVER_old(self->shared_->chunkHead)
       ? self->shared_->chunkHead->size == __CPROVER_old(self->shared_->chunkHead->size) + SONIC_ALIGN(size)
       : (self->shared_->chunkHead->size == SONIC_ALIGN(size) && self->shared_->chunkHead->next == __CPROVER_old(self->shared_->chunkHead) &&
          !__CPROVER_same_object(self->shared_->chunkHead, __CPROVER_old(self->shared_->chunkHead)) &&
          self->shared_->chunkHead->next->size == __CPROVER_old(self->shared_->chunkHead->size))))
/* a failed allocation (base allocator returned null) leaves the pool as it was */
__CPROVER_ensures(__CPROVER_return_value != NULL || (self->shared_->chunkHead == __CPROVER_old(self->shared_->chunkHead) && self->shared_->chunkHead->size == __CPROVER_old(self->shared_->chunkHead->size)))
""", **_MPA)
UNITS["MemoryPoolAllocator.Realloc"] = dict(file=AL, anchor=r"void\* Realloc\(", after=r"class MemoryPoolAllocator \{", cname="MemoryPoolAllocator_Realloc",
    # `GetChunkBuffer(shared_) + head->size - originalSize` forms a pointer below the head chunk when the old block is larger
    # than what the head chunk has handed out; it is only compared with originalPtr, never dereferenced (observation job)
    check_disable=["pointer-overflow"],
    must_fire=["if-decl"], **_MPA)

_MPA_RW = dict(self="MemoryPoolAllocator", fields=["cp_", "baseAllocator_", "shared_"], fields_mode="rewrite", rules=ALLOC_RULES, after=r"class MemoryPoolAllocator \{")
UNITS["MemoryPoolAllocator.Clear"] = dict(file=AL, anchor=r"void Clear\(", cname="MemoryPoolAllocator_Clear", nloops=1,
    callmacro="#define Clear() MemoryPoolAllocator_Clear(self)", must_fire=["base-free"], **_MPA_RW)
UNITS["MemoryPoolAllocator.Capacity"] = dict(file=AL, anchor=r"size_t Capacity\(", cname="MemoryPoolAllocator_Capacity", nloops=1, **_MPA_RW)
UNITS["MemoryPoolAllocator.Size"] = dict(file=AL, anchor=r"size_t Size\(", cname="MemoryPoolAllocator_Size", nloops=1, **_MPA_RW)
UNITS["MemoryPoolAllocator.dtor"] = dict(file=AL, anchor=r"~MemoryPoolAllocator\(\) noexcept \{", cname="MemoryPoolAllocator_dtor", rtype="void",
    must_fire=["base-free", "delete-base"], **_MPA_RW)
UNITS["MemoryPoolAllocator.copy_assign"] = dict(file=AL, anchor=r"MemoryPoolAllocator& operator=\(const MemoryPoolAllocator& rhs\)", cname="MemoryPoolAllocator_copy_assign",
    rtype="MemoryPoolAllocator *", must_fire=["this-dtor", "return-this"], **_MPA_RW)
UNITS["MemoryPoolAllocator.move_assign"] = dict(file=AL, anchor=r"MemoryPoolAllocator& operator=\(MemoryPoolAllocator&& rhs\)", cname="MemoryPoolAllocator_move_assign",
    rtype="MemoryPoolAllocator *", must_fire=["this-dtor", "return-this"],
    **dict(_MPA_RW, rules=ALLOC_RULES + [("rvalue-ref", r"MemoryPoolAllocator&& rhs", "MemoryPoolAllocator& rhs")]))

# ------------------------------------------------------------------ internal/stack.h, writebuffer.h (C06)
ST = "include/sonic/internal/stack.h"
_STK = dict(self="Stack", fields=["buf_", "top_", "cap_"], after=r"class Stack \{")
STK_RULES = [("tmpl-T", r"template <typename T>\s*", ""), ("realloc", r"\bstd::realloc\(", "realloc(")]
UNITS["Stack.fields"] = dict(file=ST, anchor=r"char\* buf_\{nullptr\};", kind="span", end=r"size_t cap_\{0\};",
                             rules=[("brace-init-null", r"\{nullptr\};", ";"), ("brace-init-0", r"\{0\};", ";")], no_default_rules=True, must_fire=["brace-init-null", "brace-init-0"])
# Size() is `top_ - buf_`; Reserve evaluates it right after realloc released the old block (the ubiquitous realloc idiom), which CBMC
# reports as a pointer relation on a deallocated object; Size touches no buffer byte, so its pointer checks are off (observation)
UNITS["Stack.Size"] = dict(file=ST, anchor=r"sonic_force_inline size_t Size\(\) const", cname="Stack_Size", callmacro="#define Size() Stack_Size(self)",
                           check_disable=["pointer", "pointer-primitive"], **_STK)
UNITS["Stack.Capacity"] = dict(file=ST, anchor=r"sonic_force_inline size_t Capacity\(\) const", cname="Stack_Capacity", callmacro="#define Capacity() Stack_Capacity(self)", **_STK)
UNITS["Stack.Clear"] = dict(file=ST, anchor=r"sonic_force_inline void Clear\(\)", cname="Stack_Clear", **_STK)
UNITS["Stack.setZero"] = dict(file=ST, anchor=r"void setZero\(\)", cname="Stack_setZero", **_STK)
STACK_WF = "STACK_WF(self)"
UNITS["Stack.Reserve"] = dict(file=ST, anchor=r"sonic_force_inline void Reserve\(size_t new_cap\)", cname="Stack_Reserve",
    callmacro="#define Reserve(n) Stack_Reserve(self, n)",
    # `top_ = tmp + Size()` evaluates top_ - buf_ after realloc released the old block: the ubiquitous realloc idiom; CBMC
    # reports a pointer relation on a deallocated object for it (observation job keeps the check on)
    contract="""__CPROVER_requires(STACK_WF_IN(self) && 1 <= new_cap && new_cap <= STACK_MAX && GHOST_BYTE_OF(self))
__CPROVER_assigns(self->buf_, self->top_, self->cap_)
__CPROVER_frees(self->buf_)
/* C06: capacity never shrinks and reaches the request; size and the first Size() bytes are preserved */
__CPROVER_ensures(STACK_WF(self) && self->buf_ != NULL)
__CPROVER_ensures(self->cap_ == (new_cap < __CPROVER_old(self->cap_) ? __CPROVER_old(self->cap_) : new_cap))
__CPROVER_ensures(__CPROVER_POINTER_OFFSET(self->top_) - __CPROVER_POINTER_OFFSET(self->buf_) == __CPROVER_POINTER_OFFSET(__CPROVER_old(self->top_)) - __CPROVER_POINTER_OFFSET(__CPROVER_old(self->buf_)))
__CPROVER_ensures(GHOST_BYTE_OF(self))
""", **_STK)
UNITS["Stack.Grow"] = dict(file=ST, anchor=r"sonic_force_inline char\* Grow\(size_t cnt\)", cname="Stack_Grow",
    callmacro="#define Grow(n) Stack_Grow(self, n)",
    # Grow's capacity test `top_ + cnt >= buf_ + cap_` compares pointers formed past the end of the block (or from NULL in the
    # moved-from state): formally undefined, done by every growable buffer. Grow dereferences no buffer byte (observation)
    check_disable=["pointer", "pointer-primitive", "pointer-overflow"],
    contract="""__CPROVER_requires(STACK_WF_IN(self) && cnt <= STACK_MAX / 4 && GHOST_BYTE_OF(self))
__CPROVER_requires(cnt >= 1 || self->cap_ >= 1)
__CPROVER_assigns(self->buf_, self->top_, self->cap_)
__CPROVER_frees(self->buf_)
/* C06: after Grow(cnt) the next cnt bytes at End() lie inside the allocation; size and contents are preserved */
__CPROVER_ensures(STACK_WF(self) && self->buf_ != NULL && __CPROVER_return_value == self->top_)
__CPROVER_ensures(__CPROVER_POINTER_OFFSET(self->top_) + cnt <= self->cap_)
__CPROVER_ensures(self->cap_ >= __CPROVER_old(self->cap_))
__CPROVER_ensures(__CPROVER_POINTER_OFFSET(self->top_) == __CPROVER_POINTER_OFFSET(__CPROVER_old(self->top_)) - __CPROVER_POINTER_OFFSET(__CPROVER_old(self->buf_)))
__CPROVER_ensures(GHOST_BYTE_OF(self))
""", **_STK)
for nm, anchor, rt in (("Push_char", r"sonic_force_inline void Push\(T v\)", None), ("PushUnsafe_char", r"sonic_force_inline void PushUnsafe\(T v\)", None),
                       ("PushSize_char", r"sonic_force_inline T\* PushSize\(size_t n\)", None), ("PushSizeUnsafe_char", r"sonic_force_inline T\* PushSizeUnsafe\(size_t n\)", None),
                       ("Pop_char", r"sonic_force_inline void Pop\(size_t n\)", None), ("End_char", r"sonic_force_inline T\* End\(\) \{", None),
                       ("Begin_char", r"sonic_force_inline T\* Begin\(\) \{", None)):
    UNITS["Stack." + nm] = dict(file=ST, anchor=anchor, cname="Stack_" + nm, tparams={"T": "char"}, rules=[("tmpl-call", r"PushSizeUnsafe<T>\(", "Stack_PushSizeUnsafe_char(self, ")], **_STK)
UNITS["Stack.Push_str"] = dict(file=ST, anchor=r"sonic_force_inline void Push\(const char\* s, size_t n\)", cname="Stack_Push_str", **_STK)
UNITS["Stack.PushUnsafe_str"] = dict(file=ST, anchor=r"sonic_force_inline void PushUnsafe\(const char\* s, size_t cnt\)", cname="Stack_PushUnsafe_str", **_STK)
UNITS["Stack.Push5_8"] = dict(file=ST, anchor=r"sonic_force_inline void Push5_8\(", cname="Stack_Push5_8", **_STK)

# ------------------------------------------------------------------ itoa (C08)
IT = "include/sonic/internal/itoa.h"
XI = A + "common/x86_common/itoa.h"
UNITS["kDigits"] = dict(file=IT, anchor=r"static const char kDigits\[202\] sonic_align\(2\) =", kind="span", end=r"\"90919293949596979899\";")
UNITS["Copy2Digs"] = dict(file=IT, anchor=r"sonic_force_inline void Copy2Digs\(")
# `out -= lz` steps one byte before `out` when the value starts the buffer (e.g. a root-level number at Begin()): the pointer is
# formed, advanced again and never dereferenced there; formally out of bounds pointer arithmetic (observation job)
UNITS["Utoa_1_8"] = dict(file=IT, anchor=r"sonic_force_inline char \*Utoa_1_8\(", check_disable=["pointer-overflow"])
UNITS["U64toa_17_20"] = dict(file=IT, anchor=r"sonic_force_inline char \*U64toa_17_20\(", check_disable=["pointer-overflow"])
UNITS["U64toa"] = dict(file=IT, anchor=r"sonic_force_inline char \*U64toa\(")
# `-val` negates INT64_MIN (signed overflow, formally undefined; x86-64 compilers wrap and the cast yields 2^63): observation job
UNITS["I64toa"] = dict(file=IT, anchor=r"sonic_force_inline char \*I64toa\(", check_disable=["signed-overflow"])
UNITS["itoa.macros"] = dict(file=XI, anchor=r"#define as_m128p\(v\)", kind="span", end=r"#define as_uint64v\(p\) \(\*\(uint64_t \*\)\(p\)\)")
UNITS["kVec16xAsc0"] = dict(file=XI, anchor=r"static const char kVec16xAsc0\[16\] sonic_align\(16\) = \{", kind="table")
UNITS["Utoa_8"] = dict(file=XI, anchor=r"static sonic_force_inline char \*Utoa_8\(")
UNITS["Utoa_16"] = dict(file=XI, anchor=r"static sonic_force_inline char \*Utoa_16\(")

# ------------------------------------------------------------------ SkipScanner::GetOnDemand driver (C11, bounded)
GOD_RULES = SIMD_RULES + [
    ("tmpl-jp", r"template <typename JPStringType>\s*", ""),
    ("using-ns", r"using namespace internal;", ""),
    ("jp-type", r"GenericJsonPointer<JPStringType>", "JsonPointer"),
    ("vec-decl", r"vector<uint8_t> kbuf\(32\);", "VecU8 kbuf = vecu8_new(32);"),
    ("vec-resize", r"kbuf\.resize\(", "vecu8_resize(&kbuf, "),
    ("vec-first", r"&kbuf\[0\]", "kbuf.p"),
    ("jp-isstr", r"path\[([^\]]+)\]\.IsStr\(\)", r"jp_is_str(&path, \1)"),
    ("jp-getstr", r"path\[([^\]]+)\]\.GetStr\(\)", r"jp_get_str(&path, \1)"),
    ("jp-getnum", r"path\[([^\]]+)\]\.GetNum\(\)", r"jp_get_num(&path, \1)"),
    ("sv-ctor", r"\bStringView\(", "("),
    ("m-data", r"\.data\(\)", ".data_"),
    ("m-size", r"\.size\(\)", ".size_"),
]
UNITS["SkipScanner.GetOnDemand"] = dict(
    file=SS, anchor=r"long GetOnDemand\(StringView json, size_t &pos,", cname="SkipScanner_GetOnDemand", rules=GOD_RULES,
    sig_rules=[("jp-type", r"GenericJsonPointer<JPStringType>", "JsonPointer")],
    # `sn = data + pos - 1 - sp` is evaluated before the `if (!skips)` test; after a failed SkipString pos may be len + 1, so
    # data + pos is formed two past the end (never dereferenced) and the pointer difference is flagged as well: formally
    # undefined pointer arithmetic. CBMC stops deciding everything downstream of a failed check, so these two classes are
    # switched off inside the driver only; every dereference, memcpy/memcmp extent and callee precondition stays checked
    check_disable=["pointer-overflow", "signed-overflow"],
    must_fire=["using-ns", "vec-decl", "vec-resize", "vec-first", "jp-isstr", "jp-getstr", "jp-getnum", "sv-ctor", "m-data", "m-size"],
    **_SCN)

# ------------------------------------------------------------------ dom/parser.h: parseNumber (C04)
PA = "include/sonic/dom/parser.h"
AN = "include/sonic/internal/atof_native.h"
UNITS["kPow10Tab"] = dict(file=AN, anchor=r"static const double kPow10Tab\[23\] = \{", kind="table")
UNITS["is_digit"] = dict(file=AN, anchor=r"static sonic_force_inline bool is_digit\(")
_PAR = dict(self="Parser", fields=["json_buf_", "len_", "pos_", "err_"])
UNITS["Parser.fields"] = dict(file=PA, anchor=r"uint8_t \*json_buf_\{nullptr\};", kind="span", end=r"SonicError err_\{kErrorNone\};", no_default_rules=True,
                              rules=[("brace-init", r"\{(?:nullptr|0|kErrorNone)\};", ";")], must_fire=["brace-init"])
UNITS["Parser.carry_one"] = dict(file=PA, anchor=r"sonic_force_inline bool carry_one\(", cname="Parser_carry_one",
                                 callmacro="#define carry_one(c, s) Parser_carry_one(self, c, &(s))", **_PAR)
UNITS["Parser.str2int"] = dict(file=PA, anchor=r"sonic_force_inline uint64_t str2int\(", cname="Parser_str2int", nloops=1,
                               callmacro="#define str2int(s, i) Parser_str2int(self, s, &(i))", **_PAR)
UNITS["Parser.parseFloatingFast"] = dict(file=PA, anchor=r"sonic_force_inline bool parseFloatingFast\(", cname="Parser_parseFloatingFast",
                                         callmacro="#define parseFloatingFast(d, e, m) Parser_parseFloatingFast(self, &(d), e, m)", **_PAR)
UNITS["Parser.parseNumber"] = dict(
    file=PA, anchor=r"sonic_force_inline bool parseNumber\(SAX &sax\)", cname="Parser_parseNumber", nloops=13,
    rules=[("sax-call", r"\bsax\.(Int|Uint|Double)\(", r"SAX_\1(&sax, "), ("using-isdigit", r"using is_digit;", "")],
    must_fire=["sax-call", "using-isdigit", "local-static-constexpr", "fcast"], **_PAR)

# ------------------------------------------------------------------ dom/serialize.h: SerializeImpl driver (C06/C09 call-site reservations, bounded)
SZ = "include/sonic/dom/serialize.h"
SER_RULES = [
    ("node-type", r"\bNodeType\b", "Node"),
    ("parentctx", r"struct ParentCtx \{", "typedef struct ParentCtx ParentCtx; struct ParentCtx {"),
    ("emit-quote", r"(?s)Quote\(str_ptr, str_len, wb\.End<char>\(\)\) - wb\.End<char>\(\)", "EMIT_Quote(&wb, str_ptr, str_len)"),
    ("emit-i64", r"(?s)I64toa\(wb\.End<char>\(\), node->GetInt64\(\)\) -\s*wb\.End<char>\(\)", "EMIT_I64toa(&wb, Node_GetInt64(node))"),
    ("emit-u64", r"(?s)U64toa\(wb\.End<char>\(\), node->GetUint64\(\)\) -\s*wb\.End<char>\(\)", "EMIT_U64toa(&wb, Node_GetUint64(node))"),
    ("emit-f64", r"F64toa\(wb\.End<char>\(\), node->GetDouble\(\)\)", "EMIT_F64toa(&wb, Node_GetDouble(node))"),
    ("stk-decl", r"\bStack stk;", "PStack stk; PStack_init(&stk);"),
    ("stk-push", r"stk\.Push\(ParentCtx\{([^}]*)\}\);", r"PStack_Push(&stk, \1);"),
    ("stk-size", r"stk\.Size\(\)", "PStack_Size(&stk)"),
    ("stk-top", r"stk\.Top<ParentCtx>\(\)", "PStack_Top(&stk)"),
    ("stk-pop", r"stk\.Pop<ParentCtx>\(1\)", "PStack_Pop(&stk)"),
    ("raw-data", r"node->GetRaw\(\)\.data\(\)", "Node_GetRawData(node)"),
    ("sv-data", r"node->GetStringView\(\)\.data\(\)", "Node_GetStringData(node)"),
    ("parent-next", r"parent->ptr->next\(\)", "Node_next(parent->ptr)"),
    ("node-call", r"\bnode->(\w+)\(\)", r"Node_\1(node)"),
    ("wb-t0", r"wb\.(\w+)<char>\(\)", r"WB_\1_char(&wb)"),
    ("wb-t", r"wb\.(\w+)<char>\(", r"WB_\1_char(&wb, "),
    ("wb-0", r"wb\.(\w+)\(\)", r"WB_\1(&wb)"),
    ("wb-n", r"wb\.(\w+)\(", r"WB_\1(&wb, "),
]
UNITS["SerializeImpl"] = dict(
    file=SZ, anchor=r"sonic_force_inline SonicError SerializeImpl\(const NodeType\* node,", rules=SER_RULES,
    sig_rules=[("node-type", r"\bNodeType\b", "Node")],
    must_fire=["parentctx", "emit-quote", "emit-i64", "emit-u64", "emit-f64", "stk-decl", "stk-push", "stk-top", "stk-pop", "node-call", "wb-t", "wb-n", "local-static-constexpr" if False else "wb-0"])

# ------------------------------------------------------------------ dom/dynamicnode.h: the map comparator (C14)
UNITS["DNode.Less"] = dict(
    file="include/sonic/dom/dynamicnode.h", anchor=r"bool operator\(\)\(MSType s1, MSType s2\) const", cname="DNode_Less", rtype="bool", paren_skip=1,
    rules=[("m-size", r"\.size\(\)", ".size_"), ("m-data", r"\.data\(\)", ".data_"), ("std-min", r"\bmin\(", "SPEC_MIN(")],
    must_fire=["m-size", "m-data", "std-min"])

# Quote's tail block (`if (nb > 0) { ... }`) as a verbatim fragment: decided on its own under the state the main loop leaves
# (0 < nb < VEC_LEN), with constant-size objects (Quote as a whole did not get through CBMC)
UNITS["Quote.tail"] = dict(file=QI, anchor=r"if \(nb > 0\) \{", kind="block", rules=SIMD_RULES + [("ns-std2", r"\bstd::memcpy\(", "memcpy(")])

# parseStringInplace's second-phase block classification (the inline `block = StringBlock{...}` under find_and_move) as a verbatim
# fragment: the loop as a whole is undecided, but this classification is a finite function of one vector block
UNITS["parseStringInplace.classify"] = dict(
    file=QI, anchor=r"VecType v\(src\);\n    block = StringBlock\{", kind="span", end=r"\};", rules=PSI_RULES,
    must_fire=["vec-load", "sb-literal", "vec-cmp"])

UNITS["MemoryPoolAllocator.AlignBuffer"] = dict(file=AL, anchor=r"static inline void\* AlignBuffer\(", cname="AlignBuffer",
    callmacro="#define AlignBuffer(b, s) (AlignBuffer)(b, &(s))")

UNITS["WriteBuffer.ToString"] = dict(file="include/sonic/writebuffer.h", anchor=r"sonic_force_inline const char\* ToString\(\) const", cname="WriteBuffer_ToString", self="WriteBuffer",
    rules=[("wb-grow", r"stack_\.Grow\(", "Stack_Grow(&self->stack_, "), ("wb-end", r"stack_\.template End<char>\(\)", "Stack_End_char(&self->stack_)"),
           ("wb-begin", r"stack_\.Begin<char>\(\)", "Stack_Begin_char(&self->stack_)")], must_fire=["wb-grow", "wb-end", "wb-begin"])

# ------------------------------------------------------------------ atof_native.h: Eisel-Lemire (C04: structural contract only, rounding undecided)
UNITS["kPow10M128Tab"] = dict(file=AN, anchor=r"static const uint64_t kPow10M128Tab\[697\]\[2\] = \{", kind="table")
UNITS["MulU64"] = dict(file=AN, anchor=r"static sonic_force_inline void MulU64\(", callmacro="#define MulU64(x, y, h, l) (MulU64)(x, y, &(h), &(l))")
UNITS["AtofEiselLemire64"] = dict(file=AN, anchor=r"static sonic_force_inline bool AtofEiselLemire64\(",
    contract="""__CPROVER_requires(mant != 0 && (sgn == 1 || sgn == -1) && __CPROVER_rw_ok(val, sizeof(double)))
__CPROVER_assigns(*val)
/* C04 (structural part only): a successful Eisel-Lemire conversion is a normal, finite double with the sign of the text;
 * zero, subnormal, infinite and NaN encodings are never produced (those cases must fall back) */
__CPROVER_ensures(!__CPROVER_return_value || ((*(uint64_t *)val >> 52) & 0x7FF) >= 1)
__CPROVER_ensures(!__CPROVER_return_value || ((*(uint64_t *)val >> 52) & 0x7FF) <= 0x7FE)
__CPROVER_ensures(!__CPROVER_return_value || (*(uint64_t *)val >> 63) == (sgn == -1))
""")

UNITS["ParseFloatingNormalFast"] = dict(file="include/sonic/internal/parse_number_normal_fast.h", anchor=r"inline bool ParseFloatingNormalFast\(", rtype="bool",
    contract="""__CPROVER_requires(man != 0 && (sgn == 1 || sgn == -1) && __CPROVER_rw_ok(d_raw__r, sizeof(uint64_t)))
/* the guard at the only call site (parser.h: exp10 > -308 + 1 && exp10 < +308 - 20), asserted there by the parseNumber jobs */
__CPROVER_requires(exp10 > -308 + 1 && exp10 < 308 - 20)
__CPROVER_assigns(*d_raw__r)
/* C04 (structural part only): a successful conversion is a normal, finite double with the sign of the text */
__CPROVER_ensures(!__CPROVER_return_value || (((*d_raw__r >> 52) & 0x7FF) >= 1 && ((*d_raw__r >> 52) & 0x7FF) <= 0x7FE))
__CPROVER_ensures(!__CPROVER_return_value || (*d_raw__r >> 63) == (sgn == -1))
""")

UNITS["Decimal"] = dict(file=AN, anchor=r"typedef struct Decimal \{", kind="span", end=r"\} Decimal;")
UNITS["DECIMAL_MAX_DNUM"] = dict(file=AN, anchor=r"#define DECIMAL_MAX_DNUM 800", kind="macro")
UNITS["ShouldRoundup"] = dict(file=AN, anchor=r"static sonic_force_inline int ShouldRoundup\(")

# Quote's tail source selection (page guard / copy to the stack buffer) as a verbatim fragment: from the buffer declaration to the
# tail loop header (exclusive)
UNITS["Quote.tailguard"] = dict(file=QI, anchor=r"char tmp_src\[VEC_LEN \* 2\];", kind="span", end=r"src_r = tmp_src;\n    \}", rules=[("ns-std2", r"\bstd::memcpy\(", "memcpy(")])

# Quote's tail mask statement as a verbatim fragment
UNITS["Quote.tailmask"] = dict(file=QI, anchor=r"mm = CopyAndGetEscapMask\(src_r, dst\) &", kind="span", end=r";")

UNITS["DNode.findMemberImpl"] = dict(
    file="include/sonic/dom/dynamicnode.h", anchor=r"sonic_force_inline MemberIterator findMemberImpl\(const char\* key,", cname="DNode_findMemberImpl", rtype="MemberIterator", nloops=1,
    self="DNodeStub", rules=[("this-begin", r"this->MemberBegin\(\)", "DN_MemberBegin(self)"), ("this-end", r"this->MemberEnd\(\)", "DN_MemberEnd(self)"),
           ("name-sv", r"it->name\.GetStringView\(\)", "it->name_sv"), ("m-size", r"\.size\(\)", ".size_"), ("m-data", r"\.data\(\)", ".data_"),
           ("getmap", r"\bgetMap\(\)", "DN_getMap(self)"), ("frommap", r"findFromMap\(StringView\(key, len\)\)", "DN_findFromMap(self, key, len)"),
           ("sv-ctor2", r"findMemberImpl\(StringView\(key, len\)\)", "DN_findMemberSV(self, key, len)")],
    autos={"it": "MemberIterator", "e": "MemberIterator", "name_sv": "StringView"},
    must_fire=["this-begin", "this-end", "name-sv", "getmap"])

# ------------------------------------------------------------------ Xmemcpy<16|32> (avx2/base.h, sse/base.h) — C15 (bounded)
XM_RULES = [("copy32", r"simd256<uint8_t> s\(src\);\s*s\.store\(dst\);", "XM_COPY32(dst, src);"),
            ("copy16", r"simd128<uint8_t> s\(src\);\s*s\.store\(dst\);", "XM_COPY16(dst, src);")]
UNITS["avx2.Xmemcpy_32"] = dict(file=A + "avx2/base.h", anchor=r"sonic_force_inline void Xmemcpy<32>\(void\* dst_,", cname="Xmemcpy_32", rtype="void", nloops=2,
                                rules=XM_RULES, must_fire=["copy32"])
UNITS["avx2.Xmemcpy_16"] = dict(file=A + "avx2/base.h", anchor=r"sonic_force_inline void Xmemcpy<16>\(void\* dst_,", cname="Xmemcpy_16", rtype="void", nloops=2,
                                rules=XM_RULES, must_fire=["copy32", "copy16"])
UNITS["sse.Xmemcpy_16"] = dict(file=A + "sse/base.h", anchor=r"sonic_force_inline void Xmemcpy<16>\(void\* dst_,", cname="Xmemcpy_16", rtype="void", nloops=1)
UNITS["sse.Xmemcpy_32"] = dict(file=A + "sse/base.h", anchor=r"sonic_force_inline void Xmemcpy<32>\(void\* dst_,", cname="Xmemcpy_32", rtype="void",
                               rules=[("inst16", r"Xmemcpy<16>\(", "Xmemcpy_16(")], must_fire=["inst16"])
