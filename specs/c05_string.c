/* C05: StringBlock predicates (complete) and parseStringInplace (bounded stand-in) against the RFC 8259 oracle. */
#include "arch.h"
#include "rfc8259.h"
#include "gen/digit_to_val32.inc"
#include "gen/hex_to_u32_nocheck.inc"
#include "gen/codepoint_to_utf8.inc"
#include "gen/handle_unicode_codepoint.inc"
#include "gen/kEscapedMap.inc"
#include "stringblock.h"
#include "gen/parseStringInplace.inc"

#ifndef NMAX
#define NMAX 8            /* bound on the raw literal length (bytes before and including the closing quote) */
#endif
#define BUFSZ (NMAX + VEC_LEN + 12)

uint8_t in_buf[BUFSZ];
size_t in_k;

/* ---- StringBlock::Find + predicates: all VEC_LEN-byte blocks (route L) ---- */
void h_StringBlock(void) {
  __CPROVER_havoc_object(in_buf);
  uint8_t *b = malloc(VEC_LEN); __CPROVER_assume(b != NULL);      /* read extent: exactly VEC_LEN bytes */
  for (int i = 0; i < VEC_LEN; i++) b[i] = in_buf[i];
  size_t k; __CPROVER_assume(k < VEC_LEN); in_k = k;
  StringBlock blk = StringBlock_Find(b);
  VASSERT(BIT(blk.bs_bits, k) == (b[k] == '\\'), "C05.block.bs: backslash mask bit i iff byte i is a backslash");
  VASSERT(BIT(blk.quote_bits, k) == (b[k] == '"'), "C05.block.quote: quote mask bit i iff byte i is a quote");
  VASSERT(BIT(blk.unescaped_bits, k) == (b[k] < 0x20), "C05.block.ctrl: control mask bit i iff byte i < 0x20");
  VASSERT((blk.bs_bits >> VEC_LEN / 2 >> VEC_LEN / 2) == 0 && (blk.quote_bits >> VEC_LEN / 2 >> VEC_LEN / 2) == 0 && (blk.unescaped_bits >> VEC_LEN / 2 >> VEC_LEN / 2) == 0,
          "C05.block.width: no mask bit at or above VEC_LEN");
  /* predicates, stated over the first special byte of the block */
  int first = -1;   /* index of the first byte that is a quote, backslash or control byte */
  for (int i = VEC_LEN - 1; i >= 0; i--) if (b[i] == '"' || b[i] == '\\' || b[i] < 0x20) first = i;
  bool qf = StringBlock_HasQuoteFirst(&blk), ue = StringBlock_HasUnescaped(&blk), hb = StringBlock_HasBackslash(&blk);
  int fq = -1; for (int i = VEC_LEN - 1; i >= 0; i--) if (b[i] == '"') fq = i;
  /* control byte before the first quote */
  bool ctrl_before_quote = false;
  for (int i = 0; i < VEC_LEN; i++) if (b[i] < 0x20 && (fq < 0 || i < fq)) ctrl_before_quote = true;
  bool bs_before_quote = false;
  for (int i = 0; i < VEC_LEN; i++) if (b[i] == '\\' && (fq < 0 || i < fq)) bs_before_quote = true;
  VASSERT(ue == ctrl_before_quote, "C05.block.unescaped: HasUnescaped iff a control byte precedes the first quote");
  VASSERT(hb == bs_before_quote, "C05.block.backslash: HasBackslash iff a backslash precedes the first quote");
  VASSERT(qf == (fq >= 0 && !bs_before_quote && !ctrl_before_quote), "C05.block.quotefirst: HasQuoteFirst iff the first special byte is a quote");
  if (fq >= 0) VASSERT(StringBlock_QuoteIndex(&blk) == fq, "C05.block.qidx: QuoteIndex is the first quote");
  if (blk.bs_bits) VASSERT(b[StringBlock_BsIndex(&blk)] == '\\' , "C05.block.bsidx: BsIndex is a backslash");
  CANARY();
}

/* ---- parseStringInplace, bounded: literal of raw length <= NMAX anywhere relative to the blocks ---- */
size_t in_n;
void h_parseStringInplace(void) {
  __CPROVER_havoc_object(in_buf);
  uint8_t *buf = malloc(BUFSZ); __CPROVER_assume(buf != NULL);
  uint8_t orig[BUFSZ];
  for (int i = 0; i < BUFSZ; i++) { buf[i] = in_buf[i]; orig[i] = in_buf[i]; }
  uint8_t want[NMAX + 4]; size_t wlen = 0, wcons = 0;
  int cls = spec_decode_string(orig, NMAX, want, &wlen, &wcons);
  __CPROVER_assume(cls != SPEC_STR_NOQUOTE);      /* call-site fact: the literal is closed within NMAX bytes (padding rule) */
  uint8_t *src = buf; SonicError err = kErrorNone;
  size_t n = parseStringInplace(src, err);
  if (cls == SPEC_STR_OK) {
    VASSERT(err == kErrorNone, "C05.string.accept: a literal the RFC accepts is accepted");
    VASSERT(n == wlen, "C05.string.len: decoded length");
    VASSERT((size_t)(src - buf) == wcons, "C05.string.advance: source ends just past the closing quote");
    size_t k; __CPROVER_assume(k < wlen); in_k = k;
    VASSERT(buf[k] == want[k], "C05.string.bytes: decoded byte k equals the RFC 8259 meaning");
  } else {
    VASSERT(err == kParseErrorUnEscaped || err == kParseErrorEscapedFormat || err == kParseErrorEscapedUnicode,
            "C05.string.reject: a literal the RFC rejects is rejected with a string-fault code");
    VASSERT(n == 0, "C05.string.reject-len: rejected literal reports length 0");
  }
  CANARY();
}

/* ---- parseStringInplace, second phase: the inline block classification (verbatim fragment gen/parseStringInplace.classify.inc) ---- */
void h_classify(void) {
  __CPROVER_havoc_object(in_buf);
  uint8_t *src = malloc(VEC_LEN); __CPROVER_assume(src != NULL);      /* read extent: exactly VEC_LEN bytes */
  for (int i = 0; i < VEC_LEN; i++) src[i] = in_buf[i];
  size_t k; __CPROVER_assume(k < VEC_LEN); in_k = k;
  StringBlock block;
#include "gen/parseStringInplace.classify.inc"
  VASSERT(BIT(block.bs_bits, k) == (src[k] == '\\'), "C05.classify.bs: (second phase) backslash mask bit i iff byte i is a backslash");
  VASSERT(BIT(block.quote_bits, k) == (src[k] == '"'), "C05.classify.quote: (second phase) quote mask bit i iff byte i is a quote");
  VASSERT(BIT(block.unescaped_bits, k) == (src[k] < 0x20), "C05.classify.ctrl: (second phase) control mask bit i iff byte i < 0x20, for every lane of the vector");
  CANARY();
}
