/* ghost.h — ghost state used instead of quantifiers (DESIGN section 3).
 * ghost_k / ghost_j are arbitrary but fixed indices into the (never modified) input buffer;
 * ghost_pk / ghost_pj the corresponding pointers and ghost_vk / ghost_vj the bytes stored there.
 * A clause proved for them holds for every index. Keeping the byte value in a ghost variable
 * means specifications never re-read the buffer (each extra symbolic array read costs a
 * quadratic number of array-consistency constraints in CBMC's SAT back end; probed). */
#ifndef SPEC_GHOST_H
#define SPEC_GHOST_H
size_t ghost_k, ghost_j;
const uint8_t *ghost_pk, *ghost_pj;
uint8_t ghost_vk, ghost_vj;

/* ghost pointer g lies in the n-byte block starting at d */
#define GHOST_INN(g, d, n) (__CPROVER_same_object((g), (d)) && __CPROVER_POINTER_OFFSET(g) >= __CPROVER_POINTER_OFFSET(d) && \
                          __CPROVER_POINTER_OFFSET(g) - __CPROVER_POINTER_OFFSET(d) < (n))
#define GHOST_IN64(g, d) GHOST_INN(g, d, 64)
#define GHOST_OFF(g, d) (__CPROVER_POINTER_OFFSET(g) - __CPROVER_POINTER_OFFSET(d))
/* precondition tying the ghosts to buffer (data,len): one read of the buffer per ghost */
#define GHOSTS_OF(data, len) (ghost_k <= (len) && ghost_j <= (len) && ghost_pk == (data) + ghost_k && ghost_pj == (data) + ghost_j && \
                              (ghost_k >= (len) || ghost_vk == (data)[ghost_k]) && (ghost_j >= (len) || ghost_vj == (data)[ghost_j]))
#endif
