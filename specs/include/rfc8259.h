/* rfc8259.h — scalar oracles written from RFC 8259 section 7 and RFC 3629 (NOT from /repo).
 * Used as the right-hand side of postconditions. */
#ifndef SPEC_RFC8259_H
#define SPEC_RFC8259_H
#include <stdint.h>
#include <stdbool.h>

static inline int spec_hexval(uint8_t c) {
  if (c >= '0' && c <= '9') return c - '0';
  if (c >= 'a' && c <= 'f') return c - 'a' + 10;
  if (c >= 'A' && c <= 'F') return c - 'A' + 10;
  return -1;
}
/* four hex digits -> 0..0xFFFF, or -1 */
static inline int32_t spec_hex4(const uint8_t *s) {
  int a = spec_hexval(s[0]), b = spec_hexval(s[1]), c = spec_hexval(s[2]), d = spec_hexval(s[3]);
  if (a < 0 || b < 0 || c < 0 || d < 0) return -1;
  return (int32_t)((a << 12) | (b << 8) | (c << 4) | d);
}
/* RFC 3629 encoder for a Unicode scalar value (caller guarantees cp <= 0x10FFFF) */
static inline unsigned spec_utf8(uint32_t cp, uint8_t out[4]) {
  if (cp < 0x80) { out[0] = (uint8_t)cp; return 1; }
  if (cp < 0x800) { out[0] = (uint8_t)(0xC0 | (cp >> 6)); out[1] = (uint8_t)(0x80 | (cp & 0x3F)); return 2; }
  if (cp < 0x10000) {
    out[0] = (uint8_t)(0xE0 | (cp >> 12)); out[1] = (uint8_t)(0x80 | ((cp >> 6) & 0x3F));
    out[2] = (uint8_t)(0x80 | (cp & 0x3F)); return 3;
  }
  out[0] = (uint8_t)(0xF0 | (cp >> 18)); out[1] = (uint8_t)(0x80 | ((cp >> 12) & 0x3F));
  out[2] = (uint8_t)(0x80 | ((cp >> 6) & 0x3F)); out[3] = (uint8_t)(0x80 | (cp & 0x3F)); return 4;
}
typedef struct { bool ok; unsigned adv; unsigned n; uint8_t out[4]; } spec_uesc_t;
/* s[0..1] is "\u" (caller checked); s has 12 readable bytes. RFC 8259 section 7:
 * \uXXXX with four hex digits; a code point outside the BMP is written as a high surrogate
 * D800..DBFF immediately followed by \u + low surrogate DC00..DFFF. Anything else involving a
 * surrogate is not a character and is rejected (property C05: "unpaired or wrongly ordered"). */
static inline spec_uesc_t spec_unicode_escape(const uint8_t *s) {
  spec_uesc_t r; r.ok = false; r.adv = 0; r.n = 0; r.out[0] = r.out[1] = r.out[2] = r.out[3] = 0;
  int32_t c1 = spec_hex4(s + 2);
  if (c1 < 0) return r;
  if (c1 >= 0xDC00 && c1 <= 0xDFFF) return r;            /* lone / leading low surrogate */
  if (c1 >= 0xD800 && c1 <= 0xDBFF) {
    if (s[6] != '\\' || s[7] != 'u') return r;           /* unpaired high surrogate */
    int32_t c2 = spec_hex4(s + 8);
    if (c2 < 0xDC00 || c2 > 0xDFFF) return r;            /* not followed by a low surrogate */
    uint32_t cp = 0x10000u + (((uint32_t)c1 - 0xD800u) << 10) + ((uint32_t)c2 - 0xDC00u);
    r.n = spec_utf8(cp, r.out); r.adv = 12; r.ok = true; return r;
  }
  r.n = spec_utf8((uint32_t)c1, r.out); r.adv = 6; r.ok = true; return r;
}
/* meaning of a two-character escape \c, or -1 if c is not one of the eight ("u" handled apart) */
static inline int spec_simple_escape(uint8_t c) {
  switch (c) {
    case '"': return '"'; case '\\': return '\\'; case '/': return '/';
    case 'b': return 0x08; case 'f': return 0x0C; case 'n': return 0x0A;
    case 'r': return 0x0D; case 't': return 0x09;
    default: return -1;
  }
}
#endif

/* ---- whole string literal (contents after the opening quote), RFC 8259 section 7 ---- */
#ifndef SPEC_STRING_DECODER
#define SPEC_STRING_DECODER
enum { SPEC_STR_OK = 0, SPEC_STR_REJECT = 1, SPEC_STR_NOQUOTE = 2 };
/* s[0..n) is searched for the closing quote; s must have 12 more readable bytes after any
 * backslash inside [0,n) (the oracle looks at a complete \uXXXX\uXXXX window like the RFC grammar).
 * out receives the decoded bytes (at most n). */
static inline int spec_decode_string(const uint8_t *s, size_t n, uint8_t *out, size_t *outlen, size_t *consumed) {
  size_t i = 0, o = 0;
  while (i < n) {
    uint8_t c = s[i];
    if (c == '"') { *outlen = o; *consumed = i + 1; return SPEC_STR_OK; }
    if (c < 0x20) return SPEC_STR_REJECT;                      /* raw control byte */
    if (c == '\\') {
      uint8_t e = s[i + 1];
      if (e == 'u') {
        spec_uesc_t u = spec_unicode_escape(s + i);
        if (!u.ok) return SPEC_STR_REJECT;                     /* non-hex, unpaired or misordered surrogate */
        for (unsigned k = 0; k < u.n; k++) out[o++] = u.out[k];
        i += u.adv;
      } else {
        int v = spec_simple_escape(e);
        if (v < 0) return SPEC_STR_REJECT;                     /* unknown escape */
        out[o++] = (uint8_t)v;
        i += 2;
      }
    } else {
      out[o++] = c; i++;
    }
  }
  return SPEC_STR_NOQUOTE;
}
#endif
