/* arch.h — selects the per-arch sliced base.h helpers by VEC_LEN and defines adapter macros. */
#ifndef SPEC_ARCH_H
#define SPEC_ARCH_H
#include "prelude.h"
#include "simdwrap.h"
#if VEC_LEN == 32
#include "gen/avx2.TrailingZeroes.inc"
#include "gen/avx2.LeadingZeroes.inc"
#include "gen/avx2.CountOnes.inc"
#include "gen/avx2.PrefixXor.inc"
#else
#include "gen/sse.TrailingZeroes.inc"
#include "gen/sse.LeadingZeroes.inc"
#include "gen/sse.CountOnes.inc"
#include "gen/sse.PrefixXor.inc"
#endif
#define BIT(x, i) (((x) >> (i)) & 1)
#define GETESCAPED_(n) GetEscaped_##n
#define GETESCAPED(n) GETESCAPED_(n)

/* RFC 8259 section 2: ws = %x20 / %x09 / %x0A / %x0D  (spec side, written independently of IsSpace) */
#ifdef NO_FUNCTIONAL
#define SPEC_IS_SPACE(c) (1)
#else
#define SPEC_IS_SPACE(c) ((c) == 0x20 || (c) == 0x09 || (c) == 0x0A || (c) == 0x0D)
#endif
#ifndef MAXLEN
#define MAXLEN 0x7fffffffUL
#endif
#endif
