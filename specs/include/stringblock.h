/* stringblock.h — assembles the sliced StringBlock (fields + members + Find) of the selected arch */
#ifndef SPEC_STRINGBLOCK_H
#define SPEC_STRINGBLOCK_H
#if VEC_LEN == 32
#define SB(x) SB_(gen/avx2.StringBlock.x.inc)
#else
#define SB(x) SB_(gen/sse.StringBlock.x.inc)
#endif
#define SB_(x) #x
typedef struct StringBlock {
#include SB(fields)
} StringBlock;
#include SB(HasUnescaped)
#include SB(HasQuoteFirst)
#include SB(HasBackslash)
#include SB(QuoteIndex)
#include SB(BsIndex)
#include SB(UnescapedIndex)
#include SB(Find)
#endif
