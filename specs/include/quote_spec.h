/* quote_spec.h — scalar oracle for JSON string quoting, written from RFC 8259 section 7 and the
 * property statement (C09), NOT from /repo: quote, backslash and bytes below 0x20 are replaced by
 * their escapes (\" \\ \b \f \n \r \t, \u00XX otherwise); every other byte is copied verbatim. */
#ifndef SPEC_QUOTE_H
#define SPEC_QUOTE_H
#include <stdint.h>
#include <stddef.h>
#define SPEC_NEED_ESCAPE(c) ((uint8_t)(c) < 0x20 || (uint8_t)(c) == '"' || (uint8_t)(c) == '\\')
static inline char spec_hexdigit_lc(unsigned v) { return (char)(v < 10 ? '0' + v : 'a' + (v - 10)); }
/* writes the escape of byte c to out (at most 6 bytes), returns its length (1 for verbatim) */
static inline unsigned spec_quote_byte(uint8_t c, char out[6]) {
  switch (c) {
    case '"': out[0] = '\\'; out[1] = '"'; return 2;
    case '\\': out[0] = '\\'; out[1] = '\\'; return 2;
    case 0x08: out[0] = '\\'; out[1] = 'b'; return 2;
    case 0x0C: out[0] = '\\'; out[1] = 'f'; return 2;
    case 0x0A: out[0] = '\\'; out[1] = 'n'; return 2;
    case 0x0D: out[0] = '\\'; out[1] = 'r'; return 2;
    case 0x09: out[0] = '\\'; out[1] = 't'; return 2;
    default: break;
  }
  if (c < 0x20) {
    out[0] = '\\'; out[1] = 'u'; out[2] = '0'; out[3] = '0';
    out[4] = spec_hexdigit_lc(c >> 4); out[5] = spec_hexdigit_lc(c & 15); return 6;
  }
  out[0] = (char)c; return 1;
}
/* whole string: reads exactly src[0..nb), writes out, returns the length */
static inline size_t spec_quote(const uint8_t *src, size_t nb, char *out) {
  size_t o = 0;
  out[o++] = '"';
  for (size_t i = 0; i < nb; i++) {
    char e[6]; unsigned n = spec_quote_byte(src[i], e);
    for (unsigned k = 0; k < n; k++) out[o++] = e[k];
  }
  out[o++] = '"';
  return o;
}
#endif
