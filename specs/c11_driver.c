/* C11: SkipScanner::GetOnDemand (the path-walking goto driver of simd_skip.h) against the CONTRACTS of every scanner it
 * calls. Bounded stand-in: paths of at most 3 steps, at most DRIVER_ITER traversals of each goto back-edge; any input
 * length up to 2^31-65, exact-size heap input. The JSON pointer and the std::vector key buffer are contract-only stubs. */
#include "arch.h"
#include "ghost.h"
#include "gen/IsSpace.inc"
#include "gen/GetEscaped_16.inc"
#include "gen/GetEscaped_32.inc"
#include "gen/GetEscaped_64.inc"
#define SPEC_IS_TOKEN(c, tokens, N) ((c) == (uint8_t)(tokens)[0] || (c) == (uint8_t)(tokens)[1] || ((N) > 3 && (c) == (uint8_t)(tokens)[2]))
#define WF_CACHE(pos, len, end) ((end) == 0 || ((end) >= 64 && (end) <= (len) && (pos) + 64 > (end)))
#define CACHE_AGREES_AT(end, bits, g, gv) \
  (!((end) != 0 && (g) >= (end) - 64 && (g) < (end)) || (BIT(bits, (g) - ((end) - 64)) == !SPEC_IS_SPACE(gv)))
typedef struct SkipScanner {
#include "gen/SkipScanner.fields.inc"
} SkipScanner;
#define WF_SCANNER_V(end, bits, pos, len) (WF_CACHE(pos, len, end) && \
   CACHE_AGREES_AT(end, bits, ghost_k, ghost_vk) && CACHE_AGREES_AT(end, bits, ghost_j, ghost_vj))
uint64_t GetNonSpaceBits(const uint8_t *data);
uint64_t GetStringBits(const uint8_t *data, uint64_t *prev_instring__r, uint64_t *prev_escaped__r);
#define GetStringBits(d, pi, pe) (GetStringBits)(d, &(pi), &(pe))
#define STUB_skip_space_safe
#define STUB_GetNextToken_3
#define STUB_GetNextToken_4
#define STUB_SkipString
#define STUB_SkipContainer
#define STUB_SkipLiteral
#define STUB_SkipScanner_GetArrayElem
#define STUB_SkipScanner_SkipOne
#include "gen/skip_space_safe.inc"
#include "gen/GetNextToken_3.inc"
#include "gen/GetNextToken_4.inc"
#define GetNextToken(d, p, l, t) (sizeof(t) == 4 ? (GetNextToken_4)(d, &(p), l, t) : (GetNextToken_3)(d, &(p), l, t))
#include "gen/SkipString.inc"
#include "gen/SkipContainer.inc"
#include "gen/SkipLiteral.inc"
#include "gen/SkipArray.inc"
#include "gen/SkipObject.inc"
#include "gen/SkipNumber.inc"
#include "gen/SkipScanner.SkipSpaceSafe.inc"
#include "gen/SkipScanner.GetArrayElem.inc"
#include "gen/SkipScanner.SkipOne.inc"

/* ---- stubs for the C++ library types the driver uses (assumed) ---- */
typedef struct { const char *data_; size_t size_; } StringView;
typedef struct { _Bool is_str; StringView str; int num; } JPNode;
#define JP_MAX 3
typedef struct { JPNode n[JP_MAX]; size_t size_; } JsonPointer;
static inline _Bool jp_is_str(const JsonPointer *p, size_t i) { __CPROVER_assert(i < p->size_, "C11.driver.path: path index inside the pointer"); return p->n[i].is_str; }
static inline StringView jp_get_str(const JsonPointer *p, size_t i) { __CPROVER_assert(i < p->size_, "C11.driver.path: path index inside the pointer"); return p->n[i].str; }
static inline int jp_get_num(const JsonPointer *p, size_t i) { __CPROVER_assert(i < p->size_, "C11.driver.path: path index inside the pointer"); return p->n[i].num; }
/* std::vector<uint8_t>: a heap block of exactly size() bytes */
typedef struct { uint8_t *p; size_t n; } VecU8;
static inline VecU8 vecu8_new(size_t n) { VecU8 v; v.p = malloc(n); __CPROVER_assume(v.p != NULL); v.n = n; return v; }
static inline void vecu8_resize(VecU8 *v, size_t n) { uint8_t *q = malloc(n); __CPROVER_assume(q != NULL); free(v->p); v->p = q; v->n = n; }

/* ---- libc and the string decoder as contract stubs (precondition asserted, frame havocked, postcondition assumed) ---- */
static inline void *drv_memcpy(void *d, const void *s, size_t n) {
  __CPROVER_assert(__CPROVER_w_ok(d, n) && __CPROVER_r_ok(s, n), "C11.driver.memcpy: the raw key copy reads [sp, sp+sn+1) inside the input and writes inside the key buffer");
  __CPROVER_havoc_slice(d, n);
  __CPROVER_assume(n == 0 || ((const uint8_t *)d)[n - 1] == ((const uint8_t *)s)[n - 1]);      /* the one byte this driver relies on: the closing quote */
  return d;
}
int nondet_int(void);
static inline int drv_memcmp(const void *a, const void *b, size_t n) {
  __CPROVER_assert(__CPROVER_r_ok(a, n) && __CPROVER_r_ok(b, n), "C11.driver.memcmp: key comparison reads only the decoded key and the path key");
  return nondet_int();
}
#define memcpy drv_memcpy
#define memcmp drv_memcmp
/* parseStringInplace (bounded proof: job C05.parseStringInplace, under this same precondition): the buffer holds a quote
 * 32 bytes before its end, so every vector block up to and including the one with the closing quote is readable */
#define PSI_W(p) (__CPROVER_OBJECT_SIZE(p) - __CPROVER_POINTER_OFFSET(p) - 32)
static inline size_t (parseStringInplace)(uint8_t **src__r, SonicError *err__r) {
  __CPROVER_assert(__CPROVER_OBJECT_SIZE(*src__r) >= __CPROVER_POINTER_OFFSET(*src__r) + 32 && __CPROVER_rw_ok(*src__r, PSI_W(*src__r) + 32) && (*src__r)[PSI_W(*src__r)] == '"',
                   "C11.driver.keybuf: the key buffer handed to parseStringInplace holds the closing quote 32 bytes before its end");
  uint8_t *old = *src__r; size_t w = PSI_W(old);
  __CPROVER_havoc_object(old);
  size_t adv; __CPROVER_assume(adv <= w + 1); *src__r = old + adv;
  size_t ret;
  if (nondet_bool()) { *err__r = kErrorNone; __CPROVER_assume(ret <= w); }
  else { int e = nondet_int(); __CPROVER_assume(e == kParseErrorUnEscaped || e == kParseErrorEscapedFormat || e == kParseErrorEscapedUnicode); *err__r = (SonicError)e; ret = 0; }
  return ret;
}
#define parseStringInplace(s, e) (parseStringInplace)(&(s), &(e))

#include "gen/SkipScanner.GetOnDemand.inc"

size_t in_len, in_plen;
_Bool nondet_bool(void);
void h_GetOnDemand(void) {
  size_t len; __CPROVER_assume(len <= MAXLEN - 64); in_len = len;
  uint8_t *data = malloc(len); __CPROVER_assume(data != NULL);          /* the caller's unpadded buffer: exactly len bytes */
  /* ghost indices: arbitrary positions of the input (plain CBMC zero-initialises globals, so they are chosen here) */
  { size_t gk, gj; __CPROVER_assume(gk <= len && gj <= len); ghost_k = gk; ghost_j = gj; ghost_pk = data + gk; ghost_pj = data + gj;
    uint8_t vk, vj; ghost_vk = vk; ghost_vj = vj; }
  __CPROVER_assume(GHOSTS_OF(data, len));
  JsonPointer path; __CPROVER_assume(path.size_ <= JP_MAX); in_plen = path.size_;
  for (int i = 0; i < JP_MAX; i++) if (path.n[i].is_str) {
    size_t kl; __CPROVER_assume(kl <= 8);
    char *kd = malloc(kl); __CPROVER_assume(kd != NULL);
    path.n[i].str.data_ = kd; path.n[i].str.size_ = kl;
  }
  SkipScanner sc; sc.nonspace_bits_end_ = 0; sc.nonspace_bits_ = 0;       /* a fresh scanner, as parser.h:42-55 creates it */
  StringView json; json.data_ = (const char *)data; json.size_ = len;
  size_t pos = 0;
  long start = SkipScanner_GetOnDemand(&sc, json, &pos, &path);
  /* what the wrapper GetOnDemand(StringView, path, target) does with it: target = StringView(json.data() + start, pos - start) */
  VASSERT(start < 0 || ((size_t)start < pos && pos <= len), "C11.driver.slice: a non-negative result is the start of a slice [start, pos) inside the input, and the offset is at most len");
  CANARY();
}
