/* C15: Xmemcpy<16> / Xmemcpy<32> of the avx2 and the sse instantiation copy exactly chunks * N bytes (bounded: chunks <= XM_MAX).
 * Both bodies are checked against the same statement (memcpy semantics), so the two configurations move nodes identically. */
#include "arch.h"
#define XM_COPY32(d, s) do { m256 v__ = MDL(_mm256_loadu_si256)((const m256 *)(s)); MDL(_mm256_storeu_si256)((m256 *)(d), v__); } while (0)   /* simd256<uint8_t> s(src); s.store(dst); */
#define XM_COPY16(d, s) do { m128 v__ = MDL(_mm_loadu_si128)((const m128 *)(s)); MDL(_mm_storeu_si128)((m128 *)(d), v__); } while (0)         /* simd128<uint8_t> s(src); s.store(dst); */
#if VEC_LEN == 32
#include "gen/avx2.Xmemcpy_32.inc"
#include "gen/avx2.Xmemcpy_16.inc"
#else
#include "gen/sse.Xmemcpy_16.inc"
#include "gen/sse.Xmemcpy_32.inc"
#endif
#ifndef XM_MAX
#define XM_MAX 5
#endif
size_t in_chunks, in_k;
#define H_XMEMCPY(N)                                                                                   \
void h_Xmemcpy_##N(void) {                                                                             \
  size_t chunks; __CPROVER_assume(chunks <= XM_MAX); in_chunks = chunks;                               \
  uint8_t *src = malloc(chunks * N), *dst = malloc(chunks * N);      /* exact-size blocks */           \
  __CPROVER_assume(src != NULL && dst != NULL);                                                        \
  size_t k; __CPROVER_assume(k < chunks * N); in_k = k;                                                \
  uint8_t want = src[k];                                                                               \
  Xmemcpy_##N(dst, src, chunks);                                                                       \
  __CPROVER_assert(dst[k] == want && src[k] == want, "C15.xmemcpy.copy: byte k of the chunks * N bytes is copied, the source is unchanged"); \
  CANARY();                                                                                            \
}
H_XMEMCPY(16)
H_XMEMCPY(32)

/* Same statement with the chunk count case-split into constants (0..XM_SPLIT_MAX): block sizes and loop bounds become concrete, which is
 * what lets the avx2 bodies (nested loops + fall-through switch) through the solver. The union of the cases is the bounded domain. */
#ifndef XM_SPLIT_MAX
#define XM_SPLIT_MAX 9
#endif
#define XM_CASE(N, C)                                                                                  \
  case C: {                                                                                            \
    uint8_t *src = malloc((C) * N + 1), *dst = malloc((C) * N + 1);  /* +1: malloc(0) is not an object; byte (C)*N is a guard byte */ \
    __CPROVER_assume(src != NULL && dst != NULL);                                                      \
    size_t k; __CPROVER_assume(k <= (C) * N); in_k = k;                                                \
    uint8_t want = src[k], dwas = dst[k];                                                              \
    Xmemcpy_##N(dst, src, C);                                                                          \
    __CPROVER_assert(src[k] == want, "C15.xmemcpy.src: the source (and its guard byte) is unchanged"); \
    __CPROVER_assert(k == (C) * N ? dst[k] == dwas : dst[k] == want, "C15.xmemcpy.copy: byte k < chunks * N is copied; the byte after the chunks * N bytes is not written"); \
  } break;
#define H_XMEMCPY_SPLIT(N)                                                                             \
void h_Xmemcpy_##N##_split(void) {                                                                     \
  size_t chunks; __CPROVER_assume(chunks <= XM_SPLIT_MAX); in_chunks = chunks;                         \
  switch (chunks) {                                                                                    \
    XM_CASE(N, 0) XM_CASE(N, 1) XM_CASE(N, 2) XM_CASE(N, 3) XM_CASE(N, 4)                              \
    XM_CASE(N, 5) XM_CASE(N, 6) XM_CASE(N, 7) XM_CASE(N, 8) XM_CASE(N, 9)                              \
    default: break;                                                                                    \
  }                                                                                                    \
  CANARY();                                                                                            \
}
H_XMEMCPY_SPLIT(16)
H_XMEMCPY_SPLIT(32)
