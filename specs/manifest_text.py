"""Human-written text for MANIFEST.json (kept next to the job tables)."""
NOTES = ("Contract-based deductive verification with CBMC on C text sliced from /repo every run. "
         "Exit 0 = every obligation discharged and every canary failed; 1 = an obligation FAILED (VIOLATION line); "
         "2 = tool-side problem (timeout, extraction break, vacuity anomaly) — never a VIOLATION line.")

CHECKS = {
 "C05": dict(
   text="Proof for all inputs of the escape decoding leaves (hex_to_u32_nocheck over 2^32 inputs, codepoint_to_utf8 over 2^32 code points, handle_unicode_codepoint over every ordered pair of \\u escapes, kEscapedMap over 256 bytes) against an RFC 8259/3629 oracle; StringBlock::Find and its predicates are proved for all blocks of both vector widths. The in-place loop parseStringInplace itself (find / cont / find_and_move phases) is NOT decided: its bounded jobs did not finish (DESIGN section 12).",
   design_ref="DESIGN.md section 5 (C05)",
   note="Trusted: CBMC, the textual lowering, the RFC oracle in specs/include/rfc8259.h. Undecided residue listed in evidence.",
   technique="CBMC contract/assertion proofs over the full input domain of mechanically sliced C (loop-free harnesses: complete)"),
}

CHECKS["C11"] = dict(
   text="Unbounded contract proofs (loop invariants + ghost indices, any len <= 2^31-1 including 0, any pos <= len) that every on-demand scanner leaf (skip_space_safe, GetNextToken<3|4>, SkipString, GetNonSpaceBits, GetStringBits, SkipLiteral/EqBytes4; avx2 and sse instantiations) reads only inside [data, data+len), keeps pos monotone and <= len on success; SkipScanner::SkipOne and GetArrayElem are proved against the callee contracts (slice start < pos' <= len). The GetOnDemand goto driver is a bounded stand-in (path <= 3 steps, each back-edge at most twice, any len) against contract stubs generated from the same contract text; SkipContainer is proved unbounded in the thorough tier only (about 20 min per instantiation).",
   design_ref="DESIGN.md section 5 (C11)",
   note="Trusted: CBMC, lowering rules, intrinsic/SIMD-wrapper models (sample-validated). Stated bound len <= 2^31-1 (2^31-65 for container skipping). Undecided residue is listed in the evidence file under 'undecided'.",
   technique="CBMC function contracts + loop contracts (DFCC) on mechanically sliced C; callers checked against callee contracts")
CHECKS["C14"] = dict(
   text="Complete proofs (all s < 32, all byte contents, all page offsets of both operands in whole-page objects, production and sanitizer preprocessor paths) that in_page_32 / is_eq_lt_32 / cross-page fallback / cmp_lt_32 never read past the page objects and return exactly byte equality / the sign of memcmp; unbounded loop-contract proofs for InlinedMemcmpEq and InlinedMemcmp on exact-size heap blocks (any s >= 32); dispatch for s < 32 proved against the kernels as uninterpreted functions; sse forwarders equal libc memcmp. Sign of InlinedMemcmp and exact result of InlinedMemcmpEq for s >= 32 are bounded stand-ins (s <= 159). The map comparator DNode::Less is proved against InlinedMemcmp's contract (equivalence = same length and bytes) and findMemberImpl's linear scan is checked bounded (<= 4 members) against InlinedMemcmpEq's contract (first member with equal length and bytes).",
   design_ref="DESIGN.md section 5 (C14)",
   note="Trusted: CBMC, lowering, intrinsic models, libc memcmp, page model (objects are whole 4096-byte pages; pointer low bits == offset low bits). movemask+1 signed wrap is an observation. std::multimap and the DOM member storage are stubs/assumed.",
   technique="CBMC contract proofs: complete loop-free harnesses over symbolic page offsets + DFCC loop contracts with ghost indices")

CHECKS["C16"] = dict(
   text="Contract proofs, complete over every well-formed pool state (head chunk of any capacity/fill <= 2^48, optional older chunk, any policy state, both chunk policies): Malloc (with AddChunk/GetChunkBuffer inlined, ChunkSize by contract) returns null or an 8-aligned block wholly inside the head chunk directly behind what was handed out, or at the start of a fresh chunk; zero size -> null; its frame contains no chunk-buffer byte. Realloc: shrink keeps the pointer, growth is in place only for the last block with room in the head chunk, otherwise a Malloc block whose first bytes equal the old contents (ghost index); it writes only at or behind the old bump pointer. Two consecutive Mallocs are disjoint. ChunkSize >= request with defined clz/shift. AlignBuffer (user-supplied buffer) yields a pointer-aligned tail of the buffer. Chunk-list walks (Clear/Size/Capacity), destructor, copy assignment (incl. self-assignment and assignment between copies) and move assignment are bounded stand-ins over pools of <= 3 chunks.",
   design_ref="DESIGN.md section 5 (C16)",
   note="Trusted: CBMC, lowering, the BaseAllocator stub (null or fresh block; free), libc memcpy contract. Stated bound 2^48 on sizes/capacities. Constructors (member-initialiser lists) and the locked-allocator option are not under contract. The last-block test in Realloc forms an out-of-object pointer that is only compared (observation job).",
   technique="CBMC function contracts enforced by DFCC on mechanically sliced member functions (loop-free: complete); bounded unwinding for list walks")

CHECKS["C06"] = dict(
   text="Growth contracts of the write buffer every emitter writes through (internal::Stack, lowered from stack.h): for every well-formed starting state (allocated with any capacity <= 2^38 and any fill incl. full and capacity 0; the all-null moved-from state) Reserve yields max(old, request) capacity in a block of SONIC_ALIGN(capacity) bytes, Grow(cnt) guarantees End()+cnt <= Begin()+Capacity() on both growth branches, and both preserve Size() and every content byte (ghost index); Push<char>, Push(s,n), Push5_8, PushSize, and Grow(k) followed by unchecked pushes of <= k bytes write only inside the capacity; WriteBuffer::ToString writes its terminator inside the allocation and keeps length and contents. Complete (loop-free) proofs. SerializeImpl itself is checked bounded (each goto back-edge at most once) against these growth contracts and the extent contracts of the emitters: every unchecked push is covered by the Reserve/Grow before it (6n+35 per string, 33 per number, 8 per literal, 3/2 per bracket, n+1 per raw value). Validity of the emitted text, parse-back equality and idempotence are NOT decided.",
   design_ref="DESIGN.md section 5 (C06)",
   note="Trusted: CBMC, lowering, CBMC's realloc model with allocation failure excluded (the code asserts non-null). Stated preconditions: Reserve(n>=1); Grow(0) only with capacity >= 1 (otherwise realloc(p,0)). Pointer checks are off inside Grow and Size only (capacity test past the end of the block; Size() right after realloc); emitter extents for strings/integers are C09/C08.",
   technique="CBMC function contracts enforced by DFCC on mechanically sliced member functions (loop-free: complete)")
CHECKS["C09"] = dict(
   text="Complete proofs for the escape tables (all 256 bytes: need-escape flag, escape length 0/2/6, escape text per RFC 8259) and for CopyAndGetEscapMask (all VEC_LEN-byte blocks, both vector widths: verbatim copy, mask bit i iff byte i needs an escape, lowest set bit marks a byte needing an escape); unbounded loop-contract proof for DoEscape (any run length: reads only [src,src+nb), writes only [dst,dst+6nb+2), consumes k>=1 bytes, emits 2k..6k bytes, stops at the first byte needing no escape); bounded byte-exactness of DoEscape for runs <= 4; Quote's tail source selection (page-offset guard or stack copy) and its tail mask proved for all tails, offsets and both preprocessor paths as verbatim fragments. The serializer call site (reservation 6n+32+3 before Quote) is checked in job C06.SerializeImpl.reservations. Quote's own loops (read/write extents, total extent 6n+2, byte-exact output) are NOT decided: four routes were built and none finished (DESIGN section 12).",
   design_ref="DESIGN.md section 5 (C09)",
   note="Trusted: CBMC, lowering, intrinsic/SIMD-wrapper models (sample-validated each run). Undecided: Quote's loops.",
   technique="CBMC assertions over full finite domains (tables, one vector block) + DFCC function/loop contracts (DoEscape); bounded unwinding for exactness")

CHECKS["C08"] = dict(
   text="The 8-digit kernels (Utoa_1_8, Utoa_8, UtoaSSE) are decided by exhaustive enumeration of the real compiled code over all 10^8 inputs each (complete for that finite domain; not deductive). The composition is proved by CBMC over all 2^64 values with the kernels as contracts: U64toa's branch partition at 10^8 / 10^16, output = spelling(quotient) followed by the zero-padded digits of the remainder, kernel preconditions at every call, length <= 20, every write inside 24 bytes (25 for I64toa); Utoa_8/Utoa_16 pack-and-store; I64toa's single sign and |INT64_MIN| = 2^63; Utoa_1_8's table indices and write extent.",
   design_ref="DESIGN.md section 5 (C08)",
   note="Assumed, not machine-checked: (1) monotonicity of unsigned division by a constant (only the end points are checked); (2) positional notation dec(h*10^k + l) = dec(h) ++ pad_k(l). Trusted: CBMC (z3 back end for the two division-heavy jobs), lowering, intrinsic models of packus/add/store. Observations: `-val` for INT64_MIN; `out -= lz` one byte before a value that starts the buffer.",
   technique="exhaustive native enumeration of the finite kernels + CBMC contract proofs of the composition (kernels replaced by contracts with uninterpreted digit functions)")

CHECKS["C04"] = dict(
   text="Bounded checks of the real parseNumber (+str2int, carry_one) against an RFC 8259 section 6 oracle: every text of at most 12 bytes of any shape; texts of at most 30 bytes of the shape [-]0.00...0 + 3 free bytes (zeros written with many digits); long-integer shapes of 21 / 23 / 27 bytes whose last 2 / 2 / 4 bytes are free (19/20-digit unsigned and negative integers at the uint64/int64 boundaries, 21+ digit integers); thorough tier: every text of at most 26 bytes. Decided: accept iff the grammar accepts and pos_ lands on the first byte that cannot continue the number; integers within uint64 / int64 delivered exactly with the right kind, others as Double; signed zero; the float converters are reached only with a non-zero mantissa and in-range table indices; a dropped non-zero digit is always reported (trunc) and never reaches an exact-mantissa path. parseFloatingFast's table indices: complete. AtofEiselLemire64 and ParseFloatingNormalFast (real bodies) satisfy a structural contract for all inputs: table index in range, shifts defined, success implies a normal finite double with the sign of the text. ShouldRoundup (big-decimal fall-back) equals IEEE round-half-to-even for every digit string, position and truncation flag. Correct rounding of the converters is NOT decided.",
   design_ref="DESIGN.md section 5 (C04)",
   note="Inside the parseNumber jobs the converters are stubs asserting their preconditions; simd_str2int is an assumed scalar contract. Two genuine defects found by this check were repaired (known_findings.json).",
   technique="CBMC bounded model checking of the mechanically sliced parseNumber with converter preconditions as assertions (bounded stand-in) + one complete loop-free proof")
CHECKS["C15"] = dict(
   text="The shared x86 kernels whose contract is a deterministic function of the input (GetNonSpaceBits, GetNextToken<3|4>, StringBlock::Find + predicates, CopyAndGetEscapMask; GetStringBits frame) are proved against the same contract for the avx2 (VEC_LEN 32) and sse (VEC_LEN 16) instantiation, so their results are identical; SkipString is checked bounded (len <= 40) against one scalar oracle for both widths; Xmemcpy<16|32> of both instantiations is checked bounded (every chunk count 0..9, case-split into constants) against one memcpy statement (bytes [0, chunks*N) copied, the next byte untouched, source unchanged); the runtime-dispatch wrappers in x86_ifuncs/*.h are checked syntactically to be pure forwarders. SkipContainer, Quote, parseStringInplace, the DOM driver and serializer across configurations are NOT decided.",
   design_ref="DESIGN.md section 5 (C15)",
   note="Trusted: intrinsic/SIMD-wrapper models for both widths, GCC's ifunc resolution and -march code generation. The forwarding check is a supporting static fact, not a proof.",
   technique="the same CBMC contracts enforced on both instantiations of the sliced kernels (complete / unbounded) + bounded oracle check + syntactic forwarding check")

NOT_APPLICABLE = {
 "C01": "driver parseImpl is a goto state machine over C++ containers and a templated SAX handler; no contract lowering achieved yet (leaf recognisers are proved under C04/C05/C11)",
 "C02": "same driver as C01 plus DOM classes/destructors; allocator-kind and leak clauses need the C++ object model CBMC's front end cannot parse",
 "C03": "needs the DOM classes (CRTP templates, placement new); no oracle inside this family without them",
 "C04": "not built yet",
 "C06": "not built yet",
 "C07": "shortest/closest/round-trip needs 128-bit non-linear arithmetic over a 617-row table; no installed back end decides it",
 "C08": "not built yet",
 "C09": "not built yet",
 "C10": "differential against DOM + pointer lookup; DOM out of reach",
 "C11": "not built yet",
 "C12": "history-quantified over heap-allocated polymorphic trees (DNode/GenericNode); CBMC's C++ front end cannot parse the classes and a C rewrite would be a model",
 "C13": "exactly-once release over arbitrary histories of C++ object lifetimes; outside CBMC contracts' reach (no C++ front end support, recursive ownership predicates)",
 "C14": "not built yet",
 "C15": "not built yet",
 "C16": "not built yet",
 "C17": "concurrency: CBMC contract instrumentation is sequential; no happens-before reasoning in this family",
 "C18": "equality over recursive DOM trees; same obstacle as C12",
 "C19": "SchemaHandler over std::vector stacks + templated parser; history-quantified over SAX call sequences; out of reach",
 "C20": "lazy update over DOM + templated parser; out of reach",
}
